"""Shared machinery of ./check: builds (Coq, extracted model runner, Rust harness), the
assumption audit, sharded execution of model and implementation on the same case lines,
comparison, violation protocol, evidence writing."""
import hashlib
import json
import os
import re
import subprocess
import sys
import time
from concurrent.futures import ThreadPoolExecutor

ROOT = os.path.dirname(os.path.dirname(os.path.abspath(__file__)))
COQ = os.path.join(ROOT, "coq")
OCAML = os.path.join(ROOT, "ocaml")
HARNESS = os.path.join(ROOT, "harness")
EVID = os.path.join(ROOT, "evidence")
REPLAYS = os.path.join(EVID, "replays")
WORK = os.path.join(ROOT, "work")
REPO = "/repo"
NPROC = min(16, os.cpu_count() or 4)
GUARD = "ebml_iterable_verif"

ENV = dict(os.environ)
ENV["CARGO_NET_OFFLINE"] = "true"

FORBIDDEN = re.compile(
    r"\b(Admitted|admit|Axiom|Axioms|Parameter|Parameters|Conjecture|Conjectures|"
    r"Admit Obligations|bypass_check|Unset Guard Checking|Unset Positivity Checking|"
    r"Unset Universe Checking|native_compute)\b|-type-in-type|-impredicative-set"
)
# stdlib axioms that may legitimately appear under Print Assumptions (none expected)
ALLOWED_AXIOMS = set()


def log(msg):
    print("[check] " + msg, flush=True)


def run(cmd, cwd=None, timeout=3600, env=None, check=True, stdin=None):
    p = subprocess.run(cmd, cwd=cwd, env=env or ENV, stdout=subprocess.PIPE, stderr=subprocess.STDOUT,
                       timeout=timeout, input=stdin, text=True)
    if check and p.returncode != 0:
        raise BuildError("command failed (%s): %s\n%s" % (p.returncode, " ".join(cmd), p.stdout[-4000:]))
    return p


class BuildError(Exception):
    pass


# ----------------------------------------------------------------------------- Coq

def coq_sources():
    out = []
    for d, _, fs in os.walk(os.path.join(COQ, "theories")):
        for f in fs:
            if f.endswith(".v"):
                out.append(os.path.join(d, f))
    out.append(os.path.join(COQ, "extract", "Extract.v"))
    return sorted(out)


def strip_comments(src):
    # remove (possibly nested) Coq comments
    out = []
    depth = 0
    i = 0
    while i < len(src):
        if src.startswith("(*", i):
            depth += 1
            i += 2
        elif src.startswith("*)", i) and depth > 0:
            depth -= 1
            i += 2
        else:
            if depth == 0:
                out.append(src[i])
            i += 1
    return "".join(out)


def forbidden_scan():
    bad = []
    for f in coq_sources():
        src = strip_comments(open(f).read())
        for m in FORBIDDEN.finditer(src):
            line = src.count("\n", 0, m.start()) + 1
            bad.append("%s:%d: %s" % (os.path.relpath(f, ROOT), line, m.group(0)))
        # Variable / Hypothesis outside a section
        depth = 0
        for ln, text in enumerate(src.split("\n"), 1):
            t = text.strip()
            if re.match(r"Section\b", t):
                depth += 1
            elif re.match(r"End\b", t) and depth > 0:
                depth -= 1
            elif depth == 0 and re.match(r"(Variable|Variables|Hypothesis|Hypotheses|Context)\b", t):
                bad.append("%s:%d: %s outside a section" % (os.path.relpath(f, ROOT), ln, t.split()[0]))
    return bad


def coq_makefile():
    mk = os.path.join(COQ, "Makefile")
    cp = os.path.join(COQ, "_CoqProject")
    if not os.path.exists(mk) or os.path.getmtime(mk) < os.path.getmtime(cp):
        run(["coq_makefile", "-f", "_CoqProject", "-o", "Makefile"], cwd=COQ)


def coq_build(targets=None, timeout=3000):
    """Full .vo build of the given targets (default: everything) with make -j."""
    coq_makefile()
    cmd = ["timeout", str(timeout), "make", "-j%d" % NPROC]
    if targets:
        cmd += targets
    t0 = time.time()
    p = run(cmd, cwd=COQ, timeout=timeout + 60, check=False)
    if p.returncode != 0:
        raise BuildError("Coq build failed:\n" + p.stdout[-6000:])
    return " ".join(cmd), time.time() - t0


def prop_theorems(prop):
    """Names of the Theorem/Example statements in Props/<prop>.v (counted from the file)."""
    f = os.path.join(COQ, "theories", "Props", prop + ".v")
    src = strip_comments(open(f).read())
    return re.findall(r"^\s*(?:Theorem|Example|Lemma|Corollary)\s+([A-Za-z0-9_']+)", src, re.M)


def assumption_audit(prop):
    """Compile a throw-away file printing the assumptions of every statement of Props/<prop>.v.
    Returns (obligations, discharged, axioms:set, raw)."""
    names = prop_theorems(prop)
    os.makedirs(WORK, exist_ok=True)
    f = os.path.join(WORK, "Audit_%s.v" % prop)
    with open(f, "w") as h:
        h.write("From Ebml Require Import Props.%s.\n" % prop)
        for n in names:
            h.write('Goal True. idtac "@@ %s". Abort.\nPrint Assumptions %s.\n' % (n, n))
    p = run(["timeout", "600", "coqc", "-Q", os.path.join(COQ, "theories"), "Ebml", f], cwd=WORK, check=False)
    for ext in (".vo", ".vok", ".vos", ".glob"):
        try:
            os.remove(f[:-2] + ext)
        except OSError:
            pass
    if p.returncode != 0:
        raise BuildError("assumption audit failed for %s:\n%s" % (prop, p.stdout[-3000:]))
    chunks = p.stdout.split("@@ ")[1:]
    discharged = 0
    axioms = set()
    bad = []
    for ch in chunks:
        name, _, rest = ch.partition("\n")
        if "Closed under the global context" in rest:
            discharged += 1
            continue
        ax = set(re.findall(r"^([A-Za-z0-9_.']+)\s*:", rest, re.M))
        axioms |= ax
        if ax and ax <= ALLOWED_AXIOMS:
            discharged += 1
        else:
            bad.append((name.strip(), sorted(ax)))
    return len(names), discharged, axioms, bad


# ----------------------------------------------------------------- model runner

def _digest(paths):
    h = hashlib.sha256()
    for p in sorted(paths):
        h.update(p.encode())
        h.update(open(p, "rb").read())
    return h.hexdigest()


def model_sources():
    ms = [p for p in coq_sources() if "/Model/" in p or p.endswith("Extract.v")]
    ms += [os.path.join(OCAML, f) for f in sorted(os.listdir(OCAML)) if f.endswith(".ml")]
    return ms


OCAML_UNITS = ["conv", "tools_cmd", "driver"]


def build_modelrun():
    """Extract the model and build ocaml/build/modelrun (cached on a digest of the sources)."""
    bdir = os.path.join(OCAML, "build")
    os.makedirs(bdir, exist_ok=True)
    stamp = os.path.join(bdir, "stamp")
    dg = _digest(model_sources())
    exe = os.path.join(bdir, "modelrun")
    if os.path.exists(exe) and os.path.exists(stamp) and open(stamp).read() == dg:
        return exe
    # Model .vo files must be current for extraction
    coq_build(["theories/Model/%s.vo" % os.path.basename(p)[:-2] for p in coq_sources() if "/Model/" in p])
    run(["timeout", "900", "coqc", "-Q", os.path.join(COQ, "theories"), "Ebml",
         os.path.join(COQ, "extract", "Extract.v")], cwd=bdir)
    for ext in (".vo", ".vok", ".vos", ".glob"):
        try:
            os.remove(os.path.join(COQ, "extract", "Extract" + ext))
        except OSError:
            pass
    units = [u for u in ocaml_units() if os.path.exists(os.path.join(OCAML, u + ".ml"))]
    for u in units:
        with open(os.path.join(OCAML, u + ".ml")) as src, open(os.path.join(bdir, u + ".ml"), "w") as dst:
            dst.write(src.read())
    cmd = ["ocamlfind", "ocamlopt", "-package", "zarith", "-linkpkg", "-w", "-a", "-inline", "100",
           "model.mli", "model.ml"] + [u + ".ml" for u in units] + ["-o", "modelrun"]
    run(["timeout", "900"] + cmd, cwd=bdir)
    open(stamp, "w").write(dg)
    return exe


def ocaml_units():
    f = os.path.join(OCAML, "UNITS")
    return open(f).read().split() if os.path.exists(f) else OCAML_UNITS


# ---------------------------------------------------------------------- harness

DEGRADED = {}    # flavour -> compile errors of the macro-declared enums (harness built without them)


def build_harness(flavour):
    """flavour: 'chk' (overflow checks + debug assertions on) or 'rel' (plain release).
    Always invoked: cargo decides what to rebuild from /repo's working tree (path dependency)."""
    lock_src = os.path.join(REPO, "Cargo.lock")
    lock_dst = os.path.join(HARNESS, "Cargo.lock")
    if not os.path.exists(lock_dst):
        open(lock_dst, "w").write(open(lock_src).read())
    env = dict(ENV)
    flags = "--cfg " + GUARD
    if flavour == "chk":
        flags += " -C overflow-checks=on -C debug-assertions=on"
    env["RUSTFLAGS"] = flags
    tdir = os.path.join(HARNESS, "target-" + flavour)
    p = run(["timeout", "1500", "cargo", "build", "--release", "--offline", "--target-dir", tdir],
            cwd=HARNESS, env=env, check=False, timeout=1600)
    if p.returncode != 0:
        # the enums of src/derive_specs.rs are compiled with the REAL derive macros: when a change to the derive crate rejects
        # them, build without them so that every other command still runs; the failing declaration is reported by C18
        first = p.stdout
        tdir2 = tdir + "-nc"
        p2 = run(["timeout", "1500", "cargo", "build", "--release", "--offline", "--no-default-features", "--target-dir", tdir2],
                 cwd=HARNESS, env=env, check=False, timeout=1600)
        if p2.returncode != 0:
            raise BuildError("harness build (%s) failed:\n%s" % (flavour, first[-6000:]))
        errs = [l for l in first.split("\n") if l.startswith("error") or l.strip().startswith("-->")]
        DEGRADED[flavour] = "\n".join(errs[:12]) or first[-2000:]
        return os.path.join(tdir2, "release", "ebml-harness")
    DEGRADED.pop(flavour, None)
    return os.path.join(tdir, "release", "ebml-harness")


# ------------------------------------------------------------ sharded execution

def _big_stack():
    # the extracted model is not tail-recursive everywhere (list append, splitN, unary fuel): inputs of a few hundred KB
    # need more than the default 8 MB stack
    import resource
    try:
        soft, hard = resource.getrlimit(resource.RLIMIT_STACK)
        resource.setrlimit(resource.RLIMIT_STACK, (hard, hard))
    except (ValueError, OSError):
        pass


SHARD_TIMEOUT = 240     # seconds for one shard of cases (normally well under 30 s)
CASE_TIMEOUT = 20       # seconds for a single case when looking for a hanging one


def run_lines(exe, lines, shards=NPROC, timeout=3000, env=None):
    """Feed case lines to exe (one result line per case), sharded over processes."""
    if not lines:
        return []
    # K lines are expected to be able to kill the process (stack depth): one process each, so that a crash does not send a whole
    # shard into the one-case-per-process search below
    solo = [i for i, l in enumerate(lines) if l.startswith("K ")]
    if solo and len(solo) < len(lines):
        rest = [i for i, l in enumerate(lines) if not l.startswith("K ")]
        res = [None] * len(lines)
        for i, o in zip(rest, run_lines(exe, [lines[i] for i in rest], shards, timeout, env)):
            res[i] = o
        for i in solo:
            res[i] = run_lines(exe, [lines[i]], 1, timeout, env)[0]
        return res
    shards = max(1, min(shards, (len(lines) + 63) // 64))
    chunks = [lines[i::shards] for i in range(shards)]

    def work(chunk):
        try:
            p = subprocess.run([exe], input="\n".join(chunk) + "\n", stdout=subprocess.PIPE, stderr=subprocess.PIPE,
                               text=True, timeout=SHARD_TIMEOUT, env=env or ENV, preexec_fn=_big_stack)
        except subprocess.TimeoutExpired:
            # some call never returned (a hang is a C05 violation in its own right): find the case(s), one process each
            res = []
            for c in chunk:
                try:
                    q = subprocess.run([exe], input=c + "\n", stdout=subprocess.PIPE, stderr=subprocess.PIPE, text=True,
                                       timeout=CASE_TIMEOUT, env=env or ENV, preexec_fn=_big_stack)
                    o = q.stdout.strip("\n")
                    res.append(o if (q.returncode == 0 and o != "" and "\n" not in o) else "CRASH rc=%s" % q.returncode)
                except subprocess.TimeoutExpired:
                    res.append("HANG (no result within %ds)" % CASE_TIMEOUT)
            return res
        out = p.stdout.split("\n")
        if out and out[-1] == "":
            out.pop()
        if p.returncode != 0 or len(out) != len(chunk):
            # find the case that killed the process, report it as CRASH
            res = []
            for c in chunk:
                q = subprocess.run([exe], input=c + "\n", stdout=subprocess.PIPE, stderr=subprocess.PIPE, text=True,
                                   timeout=timeout, env=env or ENV, preexec_fn=_big_stack)
                o = q.stdout.strip("\n")
                res.append(o if (q.returncode == 0 and o != "" and "\n" not in o) else "CRASH rc=%s %s" % (q.returncode, q.stderr.strip()[-200:].replace("\n", " ")))
            return res
        return out

    with ThreadPoolExecutor(max_workers=shards) as ex:
        outs = list(ex.map(work, chunks))
    res = [None] * len(lines)
    for s, out in enumerate(outs):
        for j, o in enumerate(out):
            res[s + j * shards] = o
    return res


# ------------------------------------------------------------------- findings

def known_findings():
    f = os.path.join(ROOT, "KNOWN_FINDINGS.json")
    if not os.path.exists(f):
        return []
    return json.load(open(f))["findings"]


def write_replay(prop, name, payload):
    os.makedirs(REPLAYS, exist_ok=True)
    path = os.path.join(REPLAYS, "%s-%s.json" % (prop, name))
    with open(path, "w") as h:
        json.dump(payload, h, indent=1)
    return path


def write_evidence(prop, tier, seed, coverage, wall, violations, assumptions):
    os.makedirs(EVID, exist_ok=True)
    ev = {
        "property_id": prop,
        "tier": tier,
        "seed": seed,
        "level": "proof",
        "coverage": coverage,
        "assumptions": assumptions,
        "wall_s": round(wall, 2),
        "violations": violations,
    }
    with open(os.path.join(EVID, prop + ".json"), "w") as h:
        json.dump(ev, h, indent=1)
