"""Per-property run: proof obligations, correspondence, oracle, violation protocol, evidence."""
import importlib
import json
import os
import random
import sys
import time

from . import core
from .core import log


class Case:
    """A group of case lines explored together.  `lines` are run on model and implementation and
    compared one by one; `oracle` judges the implementation's outputs alone."""
    __slots__ = ("lines", "cls", "meta")

    def __init__(self, lines, cls="gen", meta=None):
        self.lines = lines if isinstance(lines, list) else [lines]
        self.cls = cls
        self.meta = meta or {}


def load_corpus(prop):
    d = os.path.join(core.ROOT, "corpus", prop)
    cases = []
    if os.path.isdir(d):
        for f in sorted(os.listdir(d)):
            if f.endswith(".case"):
                lines = [l.rstrip("\n") for l in open(os.path.join(d, f)) if l.strip() and not l.startswith("#")]
                if lines:
                    cases.append(Case(lines, cls="corpus:" + f))
    return cases


def run_property(prop, tier, seed, replay=None):
    t0 = time.time()
    mod = importlib.import_module("props." + prop.lower())
    rng = random.Random((seed << 8) ^ int(prop[1:]))
    violations = []   # (kind, description, replay payload)
    known_hits = {}
    notes = []

    # ---- 1. proof obligations -----------------------------------------------------
    obligations = discharged = 0
    axioms = set()
    checker_cmd = ""
    proof_ok = True
    bad = core.forbidden_scan()
    if bad:
        proof_ok = False
        violations.append(("proof", "forbidden construct in the development: " + "; ".join(bad[:5]), {"forbidden": bad}))
    try:
        checker_cmd, secs = core.coq_build(["theories/Props/%s.vo" % prop])
        obligations, discharged, axioms, badax = core.assumption_audit(prop)
        if badax:
            proof_ok = False
            violations.append(("proof", "statements depending on axioms outside the allow-list: %r" % badax, {"axioms": badax}))
        log("proof: %d/%d obligations of Props/%s.v checked by coqc (%.1fs), axioms: %s"
            % (discharged, obligations, prop, secs, sorted(axioms) or "none"))
    except core.BuildError as e:
        proof_ok = False
        obligations = len(core.prop_theorems(prop)) if os.path.exists(os.path.join(core.COQ, "theories", "Props", prop + ".v")) else 0
        violations.append(("proof", "Coq development does not check: " + str(e)[-1500:], {"build_error": str(e)[-6000:]}))

    # ---- 2. builds ----------------------------------------------------------------
    exe_model = core.build_modelrun()
    flavours = getattr(mod, "FLAVOURS", ["chk", "rel"])
    exes = {}
    for fl in flavours:
        exes[fl] = core.build_harness(fl)

    if core.DEGRADED:
        msg = next(iter(core.DEGRADED.values()))
        if prop == "C18":
            violations.append(("oracle", "well-formed declarations (the enums of harness/src/derive_specs.rs, accepted by the model and by the pinned "
                               "macros) are rejected by the derive macros of the current tree: " + msg[:800],
                               {"property": prop, "why": "declarations of harness/src/derive_specs.rs no longer compile", "compile_errors": msg,
                                "declarations": "harness/src/derive_specs.rs (the source locations are in compile_errors)"}))
        else:
            notes.append("harness built without the macro-declared enums (they do not compile with the current derive crate); not used by this property")
            log("note: " + notes[-1])

    # ---- 3. cases -----------------------------------------------------------------
    if replay:
        payload = json.load(open(replay))
        cases = [Case(payload["case"]["lines"], cls="replay", meta=payload["case"].get("meta"))]
    else:
        cases = load_corpus(prop) + mod.generate(rng, tier)
    lines = []
    index = []
    for ci, c in enumerate(cases):
        for l in c.lines:
            index.append(ci)
            lines.append(l)
    log("%d cases / %d lines (%s tier, seed %d)" % (len(cases), len(lines), tier, seed))

    # ---- 4. run both sides ----------------------------------------------------------
    # cases marked impl_only (inputs on which the extracted model is too slow, e.g. nesting thousands deep) are judged by the oracle
    # alone: the model's place is taken by the first flavour's output, so they never count as a disagreement
    impl_only = [bool(cases[ci].meta.get("impl_only")) for ci in index]
    mlines = [l for l, io_ in zip(lines, impl_only) if not io_]
    mres = iter(core.run_lines(exe_model, mlines))
    impl_out = {fl: core.run_lines(exes[fl], lines) for fl in flavours}
    model_out = [impl_out[flavours[0]][k] if io_ else next(mres) for k, io_ in enumerate(impl_only)]

    per_case_model = [[] for _ in cases]
    per_case_impl = {fl: [[] for _ in cases] for fl in flavours}
    for k, ci in enumerate(index):
        per_case_model[ci].append(model_out[k])
        for fl in flavours:
            per_case_impl[fl][ci].append(impl_out[fl][k])

    # ---- 5. compare + oracle --------------------------------------------------------
    normalise = getattr(mod, "normalise", lambda line, out: out)
    known = [k for k in core.known_findings() if k["property"] == prop and k.get("status") == "known"]
    classify = getattr(mod, "known_class", lambda case, outs: None)
    disagreements = []
    oracle_failures = []
    dist = {}
    nontrivial = set()
    for ci, c in enumerate(cases):
        dist[c.cls.split(":")[0]] = dist.get(c.cls.split(":")[0], 0) + 1
        mo = [normalise(l, o) for l, o in zip(c.lines, per_case_model[ci])]
        if mod.nontrivial(c, mo):
            nontrivial.add("\n".join(c.lines))
        for fl in flavours:
            io = [normalise(l, o) for l, o in zip(c.lines, per_case_impl[fl][ci])]
            fail = mod.oracle(c, io)
            if not fail and hasattr(mod, "raw_check"):
                fail = mod.raw_check(c, per_case_model[ci], per_case_impl[fl][ci])
            if fail:
                oracle_failures.append((ci, fl, fail))
            if io != mo:
                disagreements.append((ci, fl))
            if any(o.startswith("FUEL") or o.startswith("BAD") for o in mo):
                violations.append(("model", "model runner produced %r" % mo, {"case": {"lines": c.lines}}))

    def payload_for(ci, fl, why):
        c = cases[ci]
        return {
            "property": prop, "why": why, "flavour": fl,
            "case": {"lines": c.lines, "cls": c.cls, "meta": c.meta},
            "model": per_case_model[ci], "implementation": per_case_impl[fl][ci],
            "rerun": "cd /verif && ./check %s --replay <this file>" % prop,
        }

    reported = set()
    for ci, fl, fail in oracle_failures:
        cls = classify(cases[ci], per_case_impl[fl][ci])
        hit = next((k for k in known if k.get("class") == cls), None) if cls else None
        if hit:
            known_hits.setdefault(hit["id"], [hit, 0])[1] += 1
            continue
        if ci in reported:
            continue
        reported.add(ci)
        violations.append(("oracle", fail, payload_for(ci, fl, fail)))
    # disagreements that the oracle does not explain
    unexplained = [(ci, fl) for ci, fl in disagreements if ci not in reported and not
                   (classify(cases[ci], per_case_impl[fl][ci]) and any(k.get("class") == classify(cases[ci], per_case_impl[fl][ci]) for k in known))]
    if unexplained and not replay:
        # search phase: neighbourhood of the first few disagreeing cases, implementation + oracle only
        found = None
        if hasattr(mod, "neighbourhood"):
            for ci, fl in unexplained[:3]:
                neigh = mod.neighbourhood(cases[ci], random.Random(seed ^ ci), tier)
                nl, nidx = [], []
                for k, c in enumerate(neigh):
                    for l in c.lines:
                        nl.append(l)
                        nidx.append(k)
                outs = core.run_lines(exes[fl], nl)
                per = [[] for _ in neigh]
                for k, o in zip(nidx, outs):
                    per[k].append(o)
                for k, c in enumerate(neigh):
                    fail = mod.oracle(c, [normalise(l, o) for l, o in zip(c.lines, per[k])])
                    if fail:
                        found = (c, per[k], fl, fail)
                        break
                if found:
                    break
        ci, fl = unexplained[0]
        if found:
            c, outs, fl2, fail = found
            violations.append(("oracle", fail, {"property": prop, "why": fail, "flavour": fl2,
                                               "case": {"lines": c.lines, "cls": c.cls, "meta": c.meta},
                                               "implementation": outs,
                                               "found_from_disagreement": payload_for(ci, fl, "model/implementation differ")}))
        else:
            violations.append(("correspondence", "model and implementation differ on %d case(s); no property-violating input found"
                               % len(unexplained), payload_for(ci, fl, "correspondence %s: model and implementation differ" % prop)))
    elif unexplained and replay:
        ci, fl = unexplained[0]
        violations.append(("correspondence", "model and implementation differ", payload_for(ci, fl, "differ")))

    # ---- 6. evidence + verdict --------------------------------------------------------
    wall = time.time() - t0
    samples = []
    for ci in list(range(min(3, len(cases)))) + ([len(cases) - 1] if len(cases) > 3 else []):
        def clip(xs):
            # samples are illustrations, not replays: at most 6 lines of a case, each cut to 600 characters
            return [x if len(x) <= 600 else x[:600] + " …(%d characters)" % len(x) for x in xs[:6]] + (["…(%d lines)" % len(xs)] if len(xs) > 6 else [])
        samples.append({"case": clip(cases[ci].lines), "class": cases[ci].cls, "model": clip(per_case_model[ci]),
                        "implementation": clip(per_case_impl[flavours[0]][ci])})
    cov = {
        "obligations": obligations,
        "discharged": discharged if proof_ok else min(discharged, max(0, obligations - 1)),
        "checker_cmd": "cd /verif/coq && %s ; then coqc on a generated file with Print Assumptions for every statement of Props/%s.v" % (checker_cmd, prop),
        "trusted_base": mod.TRUSTED + ["axioms reported by Print Assumptions: " + (", ".join(sorted(axioms)) or "none (closed under the global context)")],
        "theorems": core.prop_theorems(prop) if obligations else [],
        "evaluations": len(cases),
        "lines_run": len(lines),
        "harness_builds": flavours,
        "distinct_nontrivial": len(nontrivial),
        "rule": mod.RULE,
        "samples": samples,
        "traces_validated_against_impl": len(cases) * len(flavours),
        "input_distribution": dist,
        "disagreements": len(disagreements),
        "oracle_failures": len(oracle_failures),
        "known_finding_cases": {k: v[1] for k, v in known_hits.items()},
        "exhaustive": bool(getattr(mod, "EXHAUSTIVE", {}).get(tier)),
        "exhaustive_subspaces": getattr(mod, "EXHAUSTIVE", {}).get(tier, ""),
    }
    if hasattr(mod, "extra_coverage"):
        cov.update(mod.extra_coverage(cases, per_case_model, tier))
    core.write_evidence(prop, tier, seed, cov, wall, len(violations), mod.ASSUMPTIONS)

    for kid, (k, n) in known_hits.items():
        print("KNOWN-FINDING: property=%s %s (%d cases this run)" % (prop, k["summary"], n))
    if violations:
        for i, (kind, desc, payload) in enumerate(violations[:5]):
            path = core.write_replay(prop, "%s-%d" % (kind, i), payload)
            suffix = " no-failing-input-found" if kind in ("proof", "correspondence", "model") else ""
            log("%s: %s" % (kind, desc[:600]))
            print("VIOLATION property=%s replay=%s%s" % (prop, path, suffix))
        return 1
    log("OK %s: %d obligations, %d cases, %d non-trivial, %.1fs" % (prop, obligations, len(cases), len(nontrivial), wall))
    return 0
