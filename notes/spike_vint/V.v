From Coq Require Import NArith ZArith Arith List Lia ZifyN ZifyNat ZifyBool Bool.
Import ListNotations.
Open Scope N_scope.
Arguments N.add : simpl never. Arguments N.mul : simpl never. Arguments N.pow : simpl never.
Arguments N.div : simpl never. Arguments N.modulo : simpl never. Arguments N.log2 : simpl never.
Arguments N.sub : simpl never. Arguments N.of_nat : simpl never. Arguments N.lor : simpl never.
Ltac Zify.zify_post_hook ::= Z.div_mod_to_equations.

(* --- bytes --- *)
Fixpoint be_bytes (w : nat) (v : N) : list N :=
  match w with O => [] | S w' => be_bytes w' (v / 256) ++ [v mod 256] end.
Definition from_be_acc (acc : N) (l : list N) : N := fold_left (fun a b => a * 256 + b) l acc.
Definition wf_bytes (l : list N) := Forall (fun b => b < 256) l.

Lemma be_bytes_length w : forall v, length (be_bytes w v) = w.
Proof. induction w; intros; cbn; [reflexivity|]. rewrite app_length, IHw. cbn. lia. Qed.
Lemma be_bytes_wf w : forall v, wf_bytes (be_bytes w v).
Proof. induction w; intros; cbn; [constructor|]. apply Forall_app. split; [apply IHw|]. constructor; [|constructor].
  apply N.mod_lt. lia. Qed.
Lemma from_be_acc_be w : forall v acc, v < 256 ^ N.of_nat w -> from_be_acc acc (be_bytes w v) = acc * 256 ^ N.of_nat w + v.
Proof.
  induction w as [|w IH]; intros v acc Hv.
  - cbn. change (N.of_nat 0) with 0 in *. rewrite N.pow_0_r in *. unfold from_be_acc. cbn. lia.
  - cbn [be_bytes]. unfold from_be_acc in *. rewrite fold_left_app. cbn [fold_left].
    replace (N.of_nat (S w)) with (N.succ (N.of_nat w)) in * by lia. rewrite N.pow_succ_r' in *.
    rewrite IH.
    + set (p := 256 ^ N.of_nat w) in *. lia.
    + set (p := 256 ^ N.of_nat w) in *. lia.
Qed.

(* --- model of tools.rs (unsigned) --- *)
Inductive res (A : Type) := Ok (a : A) | Err (code : N) | Panic (site : N).
Arguments Ok {A}. Arguments Err {A}. Arguments Panic {A}.

(* as_vint_no_check_u64::<L>: to_be_bytes, bytes[8-L] |= 1 << (8-L), take the last L *)
Definition as_vint_no_check (L : nat) (v : N) : list N := be_bytes L (N.lor v (2 ^ (7 * N.of_nat L))).
Definition as_vint_with_length (L : nat) (v : N) : res (list N) :=
  if 2 ^ (N.of_nat L * 7) <=? v then Err 1 else Ok (as_vint_no_check L v).

(* read_vint *)
Definition read_vint (buf : list N) : res (option (N * nat)) :=
  match buf with
  | [] => Ok None
  | b0 :: tl =>
      if b0 =? 0 then Err 2 else
      let length := (8 - N.to_nat (N.log2 b0))%nat in
      if (List.length buf <? length)%nat then Ok None else
      let value := b0 - 2 ^ (8 - N.of_nat length) in
      Ok (Some (from_be_acc value (firstn (length - 1) tl), length))
  end.

Lemma lor_marker L v : v < 2 ^ (7 * L) -> N.lor v (2 ^ (7 * L)) = v + 2 ^ (7 * L).
Proof.
  intros H.
  assert (Hland : N.land v (2 ^ (7 * L)) = 0).
  { apply N.bits_inj_0. intros n. rewrite N.land_spec, N.pow2_bits_eqb.
    destruct (N.eqb_spec (7*L) n) as [<-|]; [|apply Bool.andb_false_r].
    rewrite Bool.andb_true_r. destruct (N.eq_dec v 0) as [->|Hv]; [apply N.bits_0|].
    apply N.bits_above_log2. apply N.log2_lt_pow2; lia. }
  rewrite <- N.lxor_lor by exact Hland. symmetry. apply N.add_nocarry_lxor. exact Hland.
Qed.

(* be_bytes of (S w): first byte is v / 256^w *)
Lemma be_bytes_S_hd w : forall v, be_bytes (S w) v = (v / 256 ^ N.of_nat w) mod 256 :: be_bytes w v.
Proof.
  induction w as [|w IH]; intros v.
  - cbn. change (N.of_nat 0) with 0. rewrite N.pow_0_r, N.div_1_r. reflexivity.
  - change (be_bytes (S (S w)) v) with (be_bytes (S w) (v / 256) ++ [v mod 256]).
    rewrite IH. cbn [app be_bytes]. f_equal.
    replace (N.of_nat (S w)) with (N.succ (N.of_nat w)) by lia. rewrite N.pow_succ_r'.
    rewrite N.div_div by (try apply N.pow_nonzero; lia). reflexivity.
Qed.

Theorem decode_encode : forall L v rest, (1 <= L <= 8)%nat -> v < 2 ^ (7 * N.of_nat L) ->
  read_vint (as_vint_no_check L v ++ rest) = Ok (Some (v, L)).
Proof.
  intros L v rest HL Hv. unfold as_vint_no_check. rewrite lor_marker by exact Hv.
  destruct L as [|w]; [lia|]. rewrite be_bytes_S_hd. cbn [app].
  set (m := 2 ^ (7 * N.of_nat (S w))) in *. set (p := 256 ^ N.of_nat w).
  assert (Hp : p = 2 ^ (8 * N.of_nat w)). { unfold p. change 256 with (2^8). now rewrite <- N.pow_mul_r. }
  assert (Hm : m = 2 ^ (8 - N.of_nat (S w)) * p).
  { unfold m. rewrite Hp, <- N.pow_add_r. f_equal. lia. }
  set (q := 2 ^ (8 - N.of_nat (S w))) in *.
  assert (Hq1 : 1 <= q). { pose proof (N.pow_nonzero 2 (8 - N.of_nat (S w)) ltac:(lia)). fold q in H. lia. }
  assert (Hq128 : q <= 128). { unfold q. change 128 with (2^7). apply N.pow_le_mono_r; lia. }
  assert (Hp0 : 0 < p). { pose proof (N.pow_nonzero 256 (N.of_nat w) ltac:(lia)). fold p in H. lia. }
  (* v < m = q * p, so (v + m)/p = q + v/p with v/p < q *)
  assert (Hdiv : (v + m) / p = q + v / p). { rewrite Hm. rewrite N.div_add by lia. apply N.add_comm. }
  assert (Hvp : v / p < q). { apply N.div_lt_upper_bound; lia. }
  assert (Hb0 : ((v + m) / p) mod 256 = q + v / p). { rewrite Hdiv. apply N.mod_small. clear - Hvp Hq128. set (d := v / p) in *. lia. }
  rewrite Hb0. unfold read_vint.
  remember (v / p) as d eqn:Ed.
  destruct (N.eqb_spec (q + d) 0) as [E0|_]; [exfalso; clear - E0 Hq1; lia|].
  assert (Hlog : N.log2 (q + d) = 8 - N.of_nat (S w)).
  { apply (N.log2_unique' _ _ d); fold q; [apply N.le_0_l|subst d; split; [apply N.le_0_l|exact Hvp]|reflexivity]. }
  rewrite Hlog.
  replace (8 - N.to_nat (8 - N.of_nat (S w)))%nat with (S w) by lia.
  cbn [length]. rewrite app_length, be_bytes_length.
  destruct (Nat.ltb_spec (S (w + length rest)) (S w)) as [E1|_]; [exfalso; lia|].
  replace (S w - 1)%nat with w by lia.
  rewrite firstn_app, be_bytes_length, Nat.sub_diag. cbn [firstn]. rewrite app_nil_r.
  rewrite firstn_all2 by (rewrite be_bytes_length; lia).
  fold q. replace (q + d - q) with d by (clear; lia). subst d.
  (* be_bytes w (v+m) only sees (v+m) mod p; express through from_be_acc *)
  assert (Hbe : forall a b, be_bytes w (a + b * p) = be_bytes w a).
  { clear. unfold p. clear p. induction w as [|w IH]; intros a b; [reflexivity|].
    cbn [be_bytes]. replace (N.of_nat (S w)) with (N.succ (N.of_nat w)) by lia. rewrite N.pow_succ_r'.
    replace (a + b * (256 * 256 ^ N.of_nat w)) with (a + (b * 256 ^ N.of_nat w) * 256) by lia.
    rewrite N.div_add by lia. rewrite N.mod_add by lia. now rewrite IH. }
  rewrite Hm, Hbe.
  assert (Hv2 : be_bytes w v = be_bytes w (v mod p)).
  { rewrite (N.div_mod v p) at 1 by lia. rewrite N.add_comm, (N.mul_comm p). apply Hbe. }
  rewrite Hv2. rewrite from_be_acc_be by (apply N.mod_lt; lia).
  fold p. do 3 f_equal. rewrite N.mul_comm. symmetry. apply N.div_mod. lia.
Qed.
Print Assumptions decode_encode.
