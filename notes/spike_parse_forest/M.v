From Coq Require Import NArith List Lia ZifyN ZifyNat ZifyBool Bool.
Import ListNotations.
Open Scope N_scope.
Arguments N.add : simpl never. Arguments N.mul : simpl never. Arguments N.of_nat : simpl never.
Arguments N.eqb : simpl never. Arguments N.leb : simpl never. Arguments N.ltb : simpl never.
Arguments N.to_nat : simpl never.

Section S.
Variable parent : N -> option N.      (* None = root element *)
Variable is_master : N -> bool.
Variable depth_fuel : nat.

Fixpoint ancestors (fuel : nat) (id : N) : list N :=
  match fuel with O => [] | S f => match parent id with None => [] | Some p => p :: ancestors f p end end.
Definition path id := ancestors depth_fuel id.
Definition list_eqb (a b : list N) : bool := if list_eq_dec N.eq_dec a b then true else false.
Definition is_ended_by (cur t : N) : bool :=
  existsb (N.eqb t) (path cur) || list_eqb (path cur) (path t)
  || match parent t with None => true | Some _ => false end.

Record frame := { fid : N; fend : option N }.
Inductive item := IStart (id:N) | IEnd (id:N) | IElem (id:N) (pl:list N) | IErr (code:N) | IFuel.

Definition exhausted pos (f : frame) : bool := match fend f with Some e => e <=? pos | None => false end.
Fixpoint known_pop pos (stk : list frame) : nat :=
  match stk with [] => O | f :: tl => let k := known_pop pos tl in
     match k with S _ => S k | O => if exhausted pos f then 1%nat else O end end.
Fixpoint count_ended (stk : list frame) (id : N) : nat :=
  match stk with [] => O | f :: tl =>
    match fend f with Some _ => O | None =>
      match count_ended tl id with S k => S (S k) | O => if is_ended_by (fid f) id then 1%nat else O end end end.

Definition ends (l : list frame) := map (fun f => IEnd (fid f)) l.

Fixpoint run (fuel : nat) (pos : N) (stk : list frame) (inp : list N) : list item :=
  match fuel with O => [IFuel] | S fuel =>
    let k1 := known_pop pos stk in
    let e1 := ends (firstn k1 stk) in let stk1 := skipn k1 stk in
    match inp with
    | [] => e1 ++ ends stk1
    | [_] => e1 ++ [IErr 1]
    | id :: sz :: rest =>
        let k2 := count_ended stk1 id in
        let e2 := ends (firstn k2 stk1) in let stk2 := skipn k2 stk1 in
        if is_master id then
          e1 ++ e2 ++ IStart id :: run fuel (pos + 2) ({| fid := id; fend := if sz =? 255 then None else Some (pos + 2 + sz) |} :: stk2) rest
        else if sz =? 255 then e1 ++ [IErr 2]
        else if N.of_nat (length rest) <? sz then e1 ++ [IErr 3]
        else e1 ++ e2 ++ IElem id (firstn (N.to_nat sz) rest) :: run fuel (pos + 2 + sz) stk2 (skipn (N.to_nat sz) rest)
    end
  end.

Inductive node := Leaf (id : N) (pl : list N) | Node (id : N) (unk : bool) (ch : list node).
Fixpoint enc (n : node) : list N :=
  match n with
  | Leaf id pl => id :: N.of_nat (length pl) :: pl
  | Node id unk ch => let body := (fix encs l := match l with [] => [] | x :: xs => enc x ++ encs xs end) ch in
                      id :: (if unk then 255 else N.of_nat (length body)) :: body
  end.
Fixpoint encs (l : list node) : list N := match l with [] => [] | x :: xs => enc x ++ encs xs end.
Fixpoint flat (n : node) : list item :=
  match n with
  | Leaf id pl => [IElem id pl]
  | Node id unk ch => IStart id :: (fix flats l := match l with [] => [] | x :: xs => flat x ++ flats xs end) ch ++ [IEnd id]
  end.
Fixpoint flats (l : list node) : list item := match l with [] => [] | x :: xs => flat x ++ flats xs end.
End S.
