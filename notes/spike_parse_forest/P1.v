From Coq Require Import NArith Arith List Lia ZifyN ZifyNat ZifyBool Bool.
Import ListNotations.
Require Import M.
Open Scope N_scope.
Arguments N.add : simpl never. Arguments N.of_nat : simpl never.
Arguments N.eqb : simpl never. Arguments N.leb : simpl never. Arguments N.ltb : simpl never.

Section P.
Variable parent : N -> option N.
Variable is_master : N -> bool.
Variable dfuel : nat.
Variable depth : N -> nat.
Hypothesis Hdepth : forall id p, parent id = Some p -> (depth p < depth id)%nat.
Hypothesis Hfuel : forall id, (depth id < dfuel)%nat.

Notation path := (path parent dfuel).
Notation is_ended_by := (is_ended_by parent dfuel).
Notation count_ended := (count_ended parent dfuel).
Notation run := (run parent is_master dfuel).

Lemma anc_stable : forall f g id, (depth id < f)%nat -> (depth id < g)%nat -> ancestors parent f id = ancestors parent g id.
Proof.
  induction f as [|f IH]; intros g id Hf Hg; [lia|].
  destruct g as [|g]; [lia|]. cbn [ancestors].
  destruct (parent id) as [p|] eqn:Hp; [|reflexivity].
  f_equal. apply IH; specialize (Hdepth _ _ Hp); lia.
Qed.

Lemma anc_child : forall f x p, parent x = Some p -> (depth x < f)%nat -> ancestors parent f x = p :: ancestors parent f p.
Proof.
  intros f x p Hp Hf. destruct f as [|f]; [lia|].
  change (ancestors parent (S f) x) with (match parent x with None => [] | Some q => q :: ancestors parent f q end).
  rewrite Hp. f_equal. apply anc_stable; specialize (Hdepth _ _ Hp); lia.
Qed.
Lemma path_child : forall x p, parent x = Some p -> path x = p :: path p.
Proof. intros x p Hp. unfold M.path. apply anc_child; auto. Qed.
Lemma path_root : forall x, parent x = None -> path x = [].
Proof. intros x Hp. unfold M.path. generalize dfuel as d. intros d; destruct d; cbn [ancestors]; [reflexivity|]. now rewrite Hp. Qed.

Lemma anc_depth : forall f x a, In a (ancestors parent f x) -> (depth a < depth x)%nat.
Proof.
  induction f as [|f IH]; intros x a Hin; cbn [ancestors] in Hin; [contradiction|].
  destruct (parent x) as [p|] eqn:Hp; [|contradiction].
  destruct Hin as [<-|Hin]; [eauto|]. specialize (IH _ _ Hin). specialize (Hdepth _ _ Hp). lia.
Qed.
Lemma path_depth : forall x a, In a (path x) -> (depth a < depth x)%nat.
Proof. intros; eapply anc_depth; eauto. Qed.

(* sibling / root close; ancestors do not *)
Lemma ended_sibling : forall y x, parent y = parent x -> is_ended_by y x = true.
Proof.
  intros y x H. unfold M.is_ended_by.
  destruct (parent x) as [p|] eqn:Hx.
  - rewrite (path_child _ _ H), (path_child _ _ Hx). unfold list_eqb.
    destruct (list_eq_dec N.eq_dec (p :: path p) (p :: path p)); [|congruence].
    now rewrite orb_true_r.
  - now rewrite orb_true_r.
Qed.
Lemma existsb_eqb_false : forall x l, ~ In x l -> existsb (N.eqb x) l = false.
Proof. induction l as [|a l IH]; intros H; cbn; [reflexivity|]. rewrite IH by (intro; apply H; now right).
  destruct (N.eqb_spec x a); [exfalso; apply H; now left|reflexivity]. Qed.
Lemma not_ended_ancestor : forall a x p, parent x = Some p -> (a = p \/ In a (path p)) -> is_ended_by a x = false.
Proof.
  intros a x p Hx Ha. unfold M.is_ended_by. rewrite Hx.
  assert (Hax : In a (path x)) by (rewrite (path_child _ _ Hx); destruct Ha; [left; congruence|now right]).
  rewrite existsb_eqb_false.
  2:{ intros Hin. apply path_depth in Hin. apply path_depth in Hax. lia. }
  unfold list_eqb. destruct (list_eq_dec N.eq_dec (path a) (path x)) as [E|]; [|reflexivity].
  rewrite <- E in Hax. apply path_depth in Hax. lia.
Qed.

(* ---------- stack lemmas ---------- *)
Notation known_pop := M.known_pop.
Definition unknownF (f : frame) := fend f = None.
Definition pendF pos (f : frame) := fend f = None \/ fend f = Some pos.

Lemma known_pop_none : forall pos stk, Forall (fun f => exhausted pos f = false) stk -> known_pop pos stk = O.
Proof. induction stk as [|f tl IH]; intros H; cbn; [reflexivity|]. inversion H; subst. rewrite IH by assumption. now rewrite H2. Qed.
Lemma known_pop_le : forall pos stk, (known_pop pos stk <= length stk)%nat.
Proof. induction stk as [|f tl IH]; cbn; [lia|]. destruct (known_pop pos tl); [destruct (exhausted pos f)|]; cbn; lia. Qed.
Lemma known_pop_app : forall pos T stk, known_pop pos stk = O -> known_pop pos (T ++ stk) = known_pop pos T.
Proof. induction T as [|f tl IH]; intros stk H; cbn; [assumption|]. now rewrite IH. Qed.
(* what is left above after known_pop is not exhausted *)
Lemma known_pop_rest : forall pos T, Forall (fun f => exhausted pos f = false) (skipn (known_pop pos T) T).
Proof.
  induction T as [|f tl IH]; cbn; [constructor|].
  destruct (known_pop pos tl) as [|k] eqn:E.
  - destruct (exhausted pos f) eqn:Ef; cbn; [assumption|]. constructor; assumption.
  - cbn. assumption.
Qed.
Lemma pend_not_exh_unknown : forall pos f, pendF pos f -> exhausted pos f = false -> unknownF f.
Proof. intros pos f [H|H] He; [assumption|]. unfold exhausted in He. rewrite H in He. lia. Qed.

Lemma count_ended_none : forall stk x, Forall (fun f => is_ended_by (fid f) x = false) stk -> count_ended stk x = O.
Proof. induction stk as [|f tl IH]; intros x H; cbn; [reflexivity|]. inversion H; subst.
  destruct (fend f); [reflexivity|]. rewrite IH by assumption. now rewrite H2. Qed.
Lemma count_ended_all : forall T stk x d, T <> [] -> Forall unknownF T -> is_ended_by (fid (last T d)) x = true ->
  count_ended stk x = O -> count_ended (T ++ stk) x = length T.
Proof.
  induction T as [|f tl IH]; intros stk x d Hne Hu He Hs; [congruence|].
  inversion Hu as [|? ? Hf Htl]; subst. cbn [app M.count_ended]. rewrite Hf.
  destruct tl as [|g tl'].
  - cbn [app]. rewrite Hs. cbn in He. now rewrite He.
  - rewrite (IH stk x d) by (try congruence; auto). cbn [length]. reflexivity.
Qed.

Definition chain (stk : list frame) (p : option N) : Prop :=
  match p with None => stk = [] | Some q => map fid stk = q :: path q end.
Definition pendT (T : list frame) (p : option N) (pos : N) (d : frame) : Prop :=
  Forall (pendF pos) T /\ (T <> [] -> parent (fid (last T d)) = p).
Definition room (stk : list frame) (e : N) : Prop :=
  Forall (fun f => match fend f with Some e' => e <= e' | None => True end) stk.

Lemma chain_not_ended : forall stk p x, chain stk (Some p) -> parent x = Some p ->
  Forall (fun f => is_ended_by (fid f) x = false) stk.
Proof.
  intros stk p x Hc Hx. unfold chain in Hc. apply Forall_forall. intros f Hin.
  apply (not_ended_ancestor _ x p Hx). apply (in_map fid) in Hin. rewrite Hc in Hin. destruct Hin; auto.
Qed.

Lemma skipn_app_le : forall A (l1 l2 : list A) k, (k <= length l1)%nat -> skipn k (l1 ++ l2) = skipn k l1 ++ l2.
Proof. intros. rewrite skipn_app. replace (k - length l1)%nat with O by lia. reflexivity. Qed.
Lemma firstn_app_le : forall A (l1 l2 : list A) k, (k <= length l1)%nat -> firstn k (l1 ++ l2) = firstn k l1.
Proof. intros. rewrite firstn_app. replace (k - length l1)%nat with O by lia. cbn. now rewrite app_nil_r. Qed.
Lemma in_skipn : forall A (l : list A) k x, In x (skipn k l) -> In x l.
Proof. induction l as [|a l IH]; intros k x H; destruct k; cbn in *; auto. right. eapply IH; eauto. Qed.
Lemma last_skipn : forall A (l : list A) k d, (k < length l)%nat -> last (skipn k l) d = last l d.
Proof. induction l as [|a l IH]; intros k d H; cbn in H; [lia|]. destruct k; [reflexivity|]. cbn [skipn].
  rewrite IH by lia. destruct l; [cbn in H; lia|reflexivity]. Qed.

(* the key step: one element start pops exactly the pending frames *)
Lemma pop_pending : forall T stk p pos x d, pendT T p pos d -> chain stk p -> parent x = p ->
  Forall (fun f => exhausted pos f = false) stk ->
  let k1 := known_pop pos (T ++ stk) in let stk1 := skipn k1 (T ++ stk) in let k2 := count_ended stk1 x in
  ends (firstn k1 (T ++ stk)) ++ ends (firstn k2 stk1) = ends T /\ skipn k2 stk1 = stk.
Proof.
  intros T stk p pos x d [HT Hlast] Hc Hx Hstk. cbn zeta.
  rewrite (known_pop_app pos T stk (known_pop_none _ _ Hstk)).
  pose proof (known_pop_le pos T) as Hle.
  rewrite (firstn_app_le _ T stk _ Hle), (skipn_app_le _ T stk _ Hle).
  set (k1 := known_pop pos T) in *.
  assert (Hu : Forall unknownF (skipn k1 T)).
  { pose proof (known_pop_rest pos T) as Hr. fold k1 in Hr.
    apply Forall_forall. intros f Hin. apply (pend_not_exh_unknown pos).
    - rewrite Forall_forall in HT. apply HT. eapply in_skipn; eauto.
    - rewrite Forall_forall in Hr. now apply Hr. }
  assert (Hs0 : count_ended stk x = O).
  { destruct p as [q|].
    - apply count_ended_none. eapply chain_not_ended; eauto.
    - cbn in Hc. subst stk. reflexivity. }
  destruct (skipn k1 T) as [|g T''] eqn:ET.
  - cbn [app]. rewrite Hs0. cbn. rewrite app_nil_r. split; [|reflexivity].
    rewrite <- (firstn_skipn k1 T) at 2. rewrite ET, app_nil_r. reflexivity.
  - assert (Hk : (k1 < length T)%nat). { destruct (Compare_dec.le_lt_dec (length T) k1); [|assumption]. rewrite skipn_all2 in ET by lia. discriminate. }
    rewrite (count_ended_all (g :: T'') stk x d); [|congruence|assumption| |assumption].
    + rewrite firstn_app_le by lia. rewrite firstn_all. rewrite skipn_app_le by lia. rewrite skipn_all. cbn [app].
      split; [|reflexivity]. unfold ends. rewrite <- map_app, <- ET, firstn_skipn. reflexivity.
    + rewrite <- ET, last_skipn by assumption. apply ended_sibling.
      rewrite Hlast; [congruence|]. intros ->. cbn in Hk. lia.
Qed.

(* ---------- trees ---------- *)
Definition len (l : list N) : N := N.of_nat (length l).
Definition nid n := match n with Leaf id _ => id | Node id _ _ => id end.
Fixpoint nsize (n : node) : nat :=
  match n with Leaf _ _ => 1%nat | Node _ _ ch => S ((fix go l := match l with [] => O | x :: xs => (nsize x + go xs)%nat end) ch) end.
Fixpoint nsizes l := match l with [] => O | x :: xs => (nsize x + nsizes xs)%nat end.
Lemma nsize_node : forall id u ch, nsize (Node id u ch) = S (nsizes ch).
Proof. intros. assert (E : (fix go l := match l with [] => O | x :: xs => (nsize x + go xs)%nat end) ch = nsizes ch) by (induction ch; cbn; congruence). cbn. now rewrite E. Qed.
Lemma enc_node : forall id u ch, enc (Node id u ch) = id :: (if u then 255 else len (encs ch)) :: encs ch.
Proof. intros. cbn. assert (E : (fix encs l := match l with [] => [] | x :: xs => enc x ++ encs xs end) ch = encs ch) by (induction ch; cbn; congruence). now rewrite E. Qed.
Lemma flat_node : forall id u ch, flat (Node id u ch) = IStart id :: flats ch ++ [IEnd id].
Proof. intros. cbn. assert (E : (fix flats l := match l with [] => [] | x :: xs => flat x ++ flats xs end) ch = flats ch) by (induction ch; cbn; congruence). now rewrite E. Qed.

(* right spine: innermost first; known frames end at e *)
Fixpoint spine_n (e : N) (n : node) : list frame :=
  match n with Leaf _ _ => [] | Node id unk ch =>
    (fix sp l := match l with [] => [] | x :: xs => match xs with [] => spine_n e x | _ => sp xs end end) ch
    ++ [ {| fid := id; fend := if unk then None else Some e |} ] end.
Fixpoint spine (e : N) (l : list node) : list frame :=
  match l with [] => [] | x :: xs => match xs with [] => spine_n e x | _ => spine e xs end end.
Lemma spine_node : forall e id u ch, spine_n e (Node id u ch) = spine e ch ++ [ {| fid := id; fend := if u then None else Some e |} ].
Proof. intros. cbn. f_equal. induction ch as [|x xs IH]; cbn; [reflexivity|]. destruct xs; [reflexivity|]. exact IH. Qed.

Fixpoint flat_o (n : node) : list item :=
  match n with Leaf id pl => [IElem id pl] | Node id unk ch =>
    IStart id :: (fix fo l := match l with [] => [] | x :: xs => match xs with [] => flat_o x | _ => flat x ++ fo xs end end) ch end.
Fixpoint flats_o (l : list node) : list item :=
  match l with [] => [] | x :: xs => match xs with [] => flat_o x | _ => flat x ++ flats_o xs end end.
Lemma flat_o_node : forall id u ch, flat_o (Node id u ch) = IStart id :: flats_o ch.
Proof. intros.
  assert (E : (fix fo l := match l with [] => [] | x :: xs => match xs with [] => flat_o x | _ => flat x ++ fo xs end end) ch = flats_o ch).
  { induction ch as [|x xs IH]; [reflexivity|]. cbn [flats_o]. destruct xs; [reflexivity|]. now rewrite IH. }
  cbn [flat_o]. now rewrite E. Qed.

Fixpoint conf (p : option N) (n : node) : Prop :=
  parent (nid n) = p /\
  match n with
  | Leaf id pl => is_master id = false /\ len pl < 255
  | Node id unk ch => is_master id = true /\ (unk = false -> len ((fix encs l := match l with [] => [] | x :: xs => enc x ++ encs xs end) ch) < 255)
      /\ (fix cf l := match l with [] => True | x :: xs => conf (Some id) x /\ cf xs end) ch
  end.
Fixpoint confs p l := match l with [] => True | x :: xs => conf p x /\ confs p xs end.
Lemma conf_node : forall p id u ch, conf p (Node id u ch) <-> parent id = p /\ is_master id = true /\ (u = false -> len (encs ch) < 255) /\ confs (Some id) ch.
Proof.
  intros. cbn [conf nid].
  assert (E1 : (fix encs l := match l with [] => [] | x :: xs => enc x ++ encs xs end) ch = encs ch) by (induction ch; cbn; congruence).
  assert (E2 : (fix cf l := match l with [] => True | x :: xs => conf (Some id) x /\ cf xs end) ch = confs (Some id) ch).
  { clear E1. induction ch as [|a ch IH]; [reflexivity|]. cbn [confs]. rewrite <- IH. reflexivity. }
  rewrite E1, E2. tauto.
Qed.

Lemma len_app : forall a b, len (a ++ b) = len a + len b.
Proof. intros. unfold len. rewrite app_length. lia. Qed.
Lemma len_cons : forall x l, len (x :: l) = 1 + len l.
Proof. intros. unfold len. cbn [length]. lia. Qed.
Lemma nsize_pos : forall n, (1 <= nsize n)%nat.
Proof. destruct n; [cbn; lia|rewrite nsize_node; lia]. Qed.
Lemma nsizes_nil : forall l, nsizes l = O -> l = [].
Proof. destruct l as [|x xs]; [reflexivity|]. cbn [nsizes]. pose proof (nsize_pos x). lia. Qed.

Lemma ends_app : forall a b, ends (a ++ b) = ends a ++ ends b.
Proof. intros. unfold ends. apply map_app. Qed.

Lemma split_k : forall k,
  (forall n e, (nsize n <= k)%nat -> flat n = flat_o n ++ ends (spine_n e n)) /\
  (forall l e, (nsizes l <= k)%nat -> flats l = flats_o l ++ ends (spine e l)).
Proof.
  induction k as [|k [IHn IHl]].
  - split.
    + intros n e H. pose proof (nsize_pos n). lia.
    + intros l e H. rewrite (nsizes_nil l) by lia. reflexivity.
  - assert (Hn : forall n e, (nsize n <= S k)%nat -> flat n = flat_o n ++ ends (spine_n e n)).
    { intros [id pl|id u ch] e H; [reflexivity|].
      rewrite nsize_node in H. rewrite flat_node, flat_o_node, spine_node, ends_app.
      rewrite (IHl ch e) by lia. cbn. now rewrite <- app_assoc. }
    split; [exact Hn|].
    intros [|x xs] e H; [reflexivity|]. cbn [nsizes] in H. pose proof (nsize_pos x).
    destruct xs as [|y ys].
    + cbn [flats flats_o spine]. rewrite app_nil_r. apply Hn. lia.
    + change (flats (x :: y :: ys)) with (flat x ++ flats (y :: ys)).
      change (flats_o (x :: y :: ys)) with (flat x ++ flats_o (y :: ys)).
      change (spine e (x :: y :: ys)) with (spine e (y :: ys)).
      rewrite (IHl (y :: ys) e) by lia. now rewrite app_assoc.
Qed.
Lemma flat_split : forall n e, flat n = flat_o n ++ ends (spine_n e n).
Proof. intros. eapply (proj1 (split_k (nsize n))). lia. Qed.

Lemma pend_k : forall k,
  (forall n e, (nsize n <= k)%nat -> Forall (pendF e) (spine_n e n)) /\
  (forall l e, (nsizes l <= k)%nat -> Forall (pendF e) (spine e l)).
Proof.
  induction k as [|k [IHn IHl]].
  - split.
    + intros n e H. pose proof (nsize_pos n). lia.
    + intros l e H. rewrite (nsizes_nil l) by lia. constructor.
  - assert (Hn : forall n e, (nsize n <= S k)%nat -> Forall (pendF e) (spine_n e n)).
    { intros [id pl|id u ch] e H; [constructor|].
      rewrite nsize_node in H. rewrite spine_node. apply Forall_app. split; [apply IHl; lia|].
      constructor; [|constructor]. unfold pendF. cbn. destruct u; auto. }
    split; [exact Hn|].
    intros [|x xs] e H; [constructor|]. cbn [nsizes] in H. pose proof (nsize_pos x).
    destruct xs as [|y ys]; [apply Hn; lia|].
    change (spine e (x :: y :: ys)) with (spine e (y :: ys)). apply IHl. lia.
Qed.
Lemma spine_n_pend : forall n e, Forall (pendF e) (spine_n e n).
Proof. intros. eapply (proj1 (pend_k (nsize n))). lia. Qed.

Lemma run_leaf : forall fuel pos stk id sz rest, is_master id = false -> (sz =? 255) = false -> (N.of_nat (length rest) <? sz) = false ->
  run (S fuel) pos stk (id :: sz :: rest) =
  let k1 := known_pop pos stk in let stk1 := skipn k1 stk in let k2 := count_ended stk1 id in
  (ends (firstn k1 stk) ++ ends (firstn k2 stk1)) ++ IElem id (firstn (N.to_nat sz) rest) :: run fuel (pos + 2 + sz) (skipn k2 stk1) (skipn (N.to_nat sz) rest).
Proof. intros. cbn [M.run]. rewrite H, H0, H1. cbn zeta. now rewrite app_assoc. Qed.
Lemma run_master : forall fuel pos stk id sz rest, is_master id = true ->
  run (S fuel) pos stk (id :: sz :: rest) =
  let k1 := known_pop pos stk in let stk1 := skipn k1 stk in let k2 := count_ended stk1 id in
  (ends (firstn k1 stk) ++ ends (firstn k2 stk1)) ++ IStart id :: run fuel (pos + 2) ({| fid := id; fend := if sz =? 255 then None else Some (pos + 2 + sz) |} :: skipn k2 stk1) rest.
Proof. intros. cbn [M.run]. rewrite H. cbn zeta. now rewrite app_assoc. Qed.

Lemma room_not_exh : forall stk pos e, room stk e -> pos < e -> Forall (fun f => exhausted pos f = false) stk.
Proof. intros stk pos e H Hlt. unfold room in H. rewrite Forall_forall in *. intros f Hin. specialize (H f Hin).
  unfold exhausted. destruct (fend f); [lia|reflexivity]. Qed.
Lemma room_weaken : forall stk e e', room stk e -> e' <= e -> room stk e'.
Proof. intros stk e e' H Hle. unfold room in *. rewrite Forall_forall in *. intros f Hin. specialize (H f Hin). destruct (fend f); [lia|exact I]. Qed.

Ltac lenlia := unfold len in *; repeat (progress (cbn [length] in *; repeat rewrite app_length in *)); lia.

Lemma parse_forest : forall k f, (nsizes f <= k)%nat -> f <> [] -> forall p stk T pos rest fuel d,
  confs p f -> chain stk p -> pendT T p pos d -> room stk (pos + len (encs f)) ->
  run (nsizes f + fuel) pos (T ++ stk) (encs f ++ rest) =
  ends T ++ flats_o f ++ run fuel (pos + len (encs f)) (spine (pos + len (encs f)) f ++ stk) rest.
Proof.
  induction k as [|k IH]; intros f Hk Hne p stk T pos rest fuel d Hconf Hchain HT Hroom.
  { exfalso. apply Hne. apply nsizes_nil. lia. }
  destruct f as [|x f']; [congruence|]. clear Hne.
  cbn [confs] in Hconf. destruct Hconf as [Hx Hf'].
  cbn [nsizes encs] in *. pose proof (nsize_pos x) as Hxpos.
  destruct x as [id pl|id u ch].
  - (* leaf *)
    cbn [conf nid] in Hx. destruct Hx as [Hp [Hm Hpl]].
    cbn [enc nsize] in *. cbn [app]. rewrite <- app_assoc.
    replace (1 + nsizes f' + fuel)%nat with (S (nsizes f' + fuel)) by lia.
    rewrite run_leaf; [|assumption| unfold len in Hpl; lia | rewrite app_length; unfold len in *; lia].
    cbn zeta.
    assert (Hexh : Forall (fun f => exhausted pos f = false) stk).
    { eapply room_not_exh; [exact Hroom|]. lenlia. }
    destruct (pop_pending T stk p pos id d HT Hchain Hp Hexh) as [He Hs]. cbn zeta in He, Hs.
    rewrite He, Hs.
    replace (N.to_nat (N.of_nat (length pl))) with (length pl) by lia.
    rewrite firstn_app, firstn_all, Nat.sub_diag, skipn_app, skipn_all, Nat.sub_diag. cbn [firstn skipn app]. rewrite app_nil_r.
    rewrite !len_cons, !len_app. fold (len pl).
    destruct f' as [|y f''].
    + cbn [nsizes encs flats_o flat_o spine spine_n app]. unfold len at 2. cbn [length].
      replace (pos + 2 + len pl) with (pos + (1 + (1 + (len pl + N.of_nat 0)))) by lia. reflexivity.
    + assert (HT0 : pendT [] p (pos + 2 + len pl) d) by (split; [constructor|congruence]).
      assert (Hroom0 : room stk (pos + 2 + len pl + len (encs (y :: f'')))) by (eapply room_weaken; [exact Hroom|]; lenlia).
      pose proof (IH (y :: f'') ltac:(lia) ltac:(congruence) p stk [] (pos + 2 + len pl) rest fuel d Hf' Hchain HT0 Hroom0) as Hi.
      cbn [app ends map] in Hi. rewrite Hi.
      change (flats_o (Leaf id pl :: y :: f'')) with (flat (Leaf id pl) ++ flats_o (y :: f'')).
      change (spine ?e (Leaf id pl :: y :: f'')) with (spine e (y :: f'')).
      cbn [flat ends map app].
      replace (pos + 2 + len pl + len (encs (y :: f''))) with (pos + (1 + (1 + (len pl + len (encs (y :: f'')))))) by lia.
      reflexivity.
  - (* master *)
    apply conf_node in Hx. destruct Hx as [Hp [Hm [Hsz Hch]]].
    rewrite nsize_node in *. rewrite enc_node in *. cbn [app]. rewrite <- app_assoc.
    replace (S (nsizes ch) + nsizes f' + fuel)%nat with (S (nsizes ch + (nsizes f' + fuel))) by lia.
    rewrite run_master by assumption. cbn zeta.
    assert (Hexh : Forall (fun f => exhausted pos f = false) stk).
    { eapply room_not_exh; [exact Hroom|]. lenlia. }
    destruct (pop_pending T stk p pos id d HT Hchain Hp Hexh) as [He Hs]. cbn zeta in He, Hs.
    rewrite He, Hs.
    set (ex := pos + 2 + len (encs ch)).
    set (F := {| fid := id; fend := if u then None else Some ex |}).
    assert (EF : {| fid := id; fend := if (if u then 255 else len (encs ch)) =? 255 then None else Some (pos + 2 + (if u then 255 else len (encs ch))) |} = F).
    { unfold F, ex. destruct u; [reflexivity|]. specialize (Hsz eq_refl). replace (len (encs ch) =? 255) with false by lia. reflexivity. }
    rewrite EF.
    assert (HchainF : chain (F :: stk) (Some id)).
    { unfold chain. cbn [map fid F]. destruct p as [q|].
      - unfold chain in Hchain. rewrite Hchain. now rewrite (path_child _ _ Hp).
      - cbn in Hchain. subst stk. now rewrite (path_root _ Hp). }
    (* after the children *)
    assert (Hafter : run (nsizes ch + (nsizes f' + fuel)) (pos + 2) (F :: stk) (encs ch ++ encs f' ++ rest) =
                     flats_o ch ++ run (nsizes f' + fuel) ex ((spine ex ch ++ [F]) ++ stk) (encs f' ++ rest)).
    { destruct ch as [|c ch'].
      - cbn [nsizes encs app flats_o spine]. unfold ex. unfold len. cbn [length encs]. replace (pos + 2 + N.of_nat 0) with (pos + 2) by lia. reflexivity.
      - assert (HT0 : pendT [] (Some id) (pos + 2) d) by (split; [constructor|congruence]).
        assert (Hroom0 : room (F :: stk) (pos + 2 + len (encs (c :: ch')))).
        { unfold room. constructor.
          * unfold F. cbn [fend]. destruct u; [exact I|]. unfold ex. lia.
          * eapply room_weaken; [exact Hroom|]. lenlia. }
        pose proof (IH (c :: ch') ltac:(lia) ltac:(congruence) (Some id) (F :: stk) [] (pos + 2) (encs f' ++ rest) (nsizes f' + fuel)%nat d Hch HchainF HT0 Hroom0) as Hi.
        cbn [app ends map] in Hi. rewrite Hi. fold ex. now rewrite <- app_assoc. }
    rewrite Hafter.
    assert (Espine : spine ex ch ++ [F] = spine_n ex (Node id u ch)) by (rewrite spine_node; reflexivity).
    rewrite Espine.
    destruct f' as [|y f''].
    + cbn [nsizes encs app flats_o spine Nat.add]. rewrite flat_o_node.
      match goal with |- _ = ?rhs => match rhs with context [run fuel ?q _ rest] => replace q with ex by (unfold ex; lenlia) end end.
      reflexivity.
    + assert (HT1 : pendT (spine_n ex (Node id u ch)) p ex d).
      { split; [apply spine_n_pend|]. intros _. rewrite <- Espine, last_last. cbn. exact Hp. }
      assert (Hroom1 : room stk (ex + len (encs (y :: f'')))) by (eapply room_weaken; [exact Hroom|]; unfold ex; lenlia).
      pose proof (IH (y :: f'') ltac:(lia) ltac:(congruence) p stk (spine_n ex (Node id u ch)) ex rest fuel d Hf' Hchain HT1 Hroom1) as Hi.
      rewrite Hi.
      change (flats_o (Node id u ch :: y :: f'')) with (flat (Node id u ch) ++ flats_o (y :: f'')).
      change (spine ?e (Node id u ch :: y :: f'')) with (spine e (y :: f'')).
      rewrite (flat_split (Node id u ch) ex), flat_o_node.
      match goal with |- _ = ?rhs => match rhs with context [run fuel ?q _ rest] => replace q with (ex + len (encs (y :: f''))) by (unfold ex; lenlia) end end.
      cbn [app]. now rewrite <- !app_assoc.
Qed.

Lemma flats_split : forall l e, flats l = flats_o l ++ ends (spine e l).
Proof. intros. eapply (proj2 (split_k (nsizes l))). lia. Qed.

Theorem roundtrip : forall f, confs None f -> run (nsizes f + 1) 0 [] (encs f) = flats f.
Proof.
  intros f Hc. destruct f as [|x f'] eqn:E; [reflexivity|]. rewrite <- E in *.
  assert (Hne : f <> []) by (subst; congruence).
  pose proof (parse_forest (nsizes f) f (le_n _) Hne None [] [] 0 [] 1%nat {| fid := 0; fend := None |} Hc eq_refl) as H.
  cbn [app ends map] in H. rewrite app_nil_r in H. rewrite H.
  - rewrite app_nil_r. cbn [M.run]. rewrite <- ends_app, firstn_skipn.
    now rewrite (flats_split f (0 + len (encs f))).
  - split; [constructor|congruence].
  - constructor.
Qed.
End P.
Check roundtrip.
Print Assumptions roundtrip.
