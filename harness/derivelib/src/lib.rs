//! The derive macro's implementation compiled as an ordinary library + the `D` command's table path
//! (FORMAT.md, "D — derive"): build the enum source for a declaration, run the REAL
//! `impl_ebml_specification` (attribute front-end) and `EasyEBML::implement` (easy_ebml! front-end),
//! and read the tables back from the generated token stream.
#![allow(dead_code, unused_imports, clippy::all)]

#[path = "/repo/specification-derive/src/ast.rs"]
mod ast;
#[path = "/repo/specification-derive/src/attr.rs"]
mod attr;
#[path = "/repo/specification-derive/src/easy_ebml.rs"]
mod easy_ebml;
#[path = "/repo/specification-derive/src/pathing.rs"]
mod pathing;

pub use attr::impl_ebml_specification;
pub use easy_ebml::EasyEBML;

use proc_macro2::TokenStream;
use quote::ToTokens;
use std::panic::{catch_unwind, AssertUnwindSafe};
use syn::{Expr, ImplItem, Item, ItemEnum, Lit, Pat};

// ------------------------------------------------------------------ case syntax

#[derive(Clone, Debug)]
pub enum Part {
    Ident(String),
    Global(String, String),
}

#[derive(Clone, Debug)]
pub enum Attr {
    Id(String),       // hex digits
    Ty(Option<char>), // None = unrecognised type name
    Path(Vec<Part>),
    Other,
}

#[derive(Clone, Debug)]
pub struct Var {
    pub name: String, // decimal
    pub attrs: Vec<Attr>,
}

fn all_digits(s: &str) -> bool {
    !s.is_empty() && s.bytes().all(|c| c.is_ascii_digit())
}

fn parse_part(s: &str) -> Result<Part, String> {
    if let Some(inner) = s.strip_prefix('(') {
        let inner = inner.strip_suffix(')').ok_or("global")?;
        let (a, b) = inner.split_once('-').ok_or("global")?;
        if (!a.is_empty() && !all_digits(a)) || (!b.is_empty() && !all_digits(b)) {
            return Err("global-bound".into());
        }
        Ok(Part::Global(a.to_string(), b.to_string()))
    } else if all_digits(s) {
        Ok(Part::Ident(s.to_string()))
    } else {
        Err(format!("part:{}", s))
    }
}

fn parse_attr(s: &str) -> Result<Attr, String> {
    let (k, rest) = s.split_at(1.min(s.len()));
    match k {
        "i" if !rest.is_empty() && rest.bytes().all(|c| c.is_ascii_hexdigit()) => Ok(Attr::Id(rest.to_string())),
        "t" => match rest {
            "M" | "U" | "I" | "S" | "B" | "F" => Ok(Attr::Ty(rest.chars().next())),
            "?" => Ok(Attr::Ty(None)),
            _ => Err(format!("dtype:{}", rest)),
        },
        "p" => {
            if rest.is_empty() {
                Ok(Attr::Path(vec![]))
            } else {
                rest.split('/').map(parse_part).collect::<Result<Vec<_>, _>>().map(Attr::Path)
            }
        }
        "o" if rest.is_empty() => Ok(Attr::Other),
        _ => Err(format!("attr:{}", s)),
    }
}

pub fn parse_decl(s: &str) -> Result<Vec<Var>, String> {
    if s == "-" {
        return Ok(vec![]);
    }
    let mut out = vec![];
    for v in s.split(';') {
        let (name, attrs) = v.split_once(':').ok_or("variant")?;
        if !all_digits(name) {
            return Err(format!("name:{}", name));
        }
        let attrs = if attrs.is_empty() { vec![] } else { attrs.split(',').map(parse_attr).collect::<Result<Vec<_>, _>>()? };
        out.push(Var { name: name.to_string(), attrs });
    }
    Ok(out)
}

/// ids declared in a declaration that fit u64 (for the probes)
pub fn decl_ids(d: &[Var]) -> Vec<u64> {
    let mut out = vec![];
    for v in d {
        for a in &v.attrs {
            if let Attr::Id(h) = a {
                if let Ok(x) = u64::from_str_radix(h, 16) {
                    out.push(x);
                }
            }
        }
    }
    out
}

fn ident_of(name: &str) -> String {
    match name {
        "0" => "Crc32".to_string(),
        "1" => "Void".to_string(),
        "2" => "RawTag".to_string(),
        n => format!("V{}", n),
    }
}

fn name_of(ident: &str) -> String {
    match ident {
        "Crc32" => "0".to_string(),
        "Void" => "1".to_string(),
        "RawTag" => "2".to_string(),
        s => match s.strip_prefix('V') {
            Some(n) if all_digits(n) => n.to_string(),
            _ => format!("?{}", s),
        },
    }
}

fn type_name(c: Option<char>) -> &'static str {
    match c {
        Some('M') => "Master",
        Some('U') => "UnsignedInt",
        Some('I') => "Integer",
        Some('S') => "Utf8",
        Some('B') => "Binary",
        Some('F') => "Float",
        _ => "Bogus",
    }
}

fn path_src(p: &[Part]) -> String {
    p.iter()
        .map(|x| match x {
            Part::Ident(n) => ident_of(n),
            Part::Global(a, b) => format!("({}-{})", a, b),
        })
        .collect::<Vec<_>>()
        .join("/")
}

/// the declaration as an enum with #[id]/#[data_type]/#[doc_path] attributes, in the given order
pub fn attr_source(d: &[Var]) -> String {
    let mut s = String::from("#[derive(Clone)] pub enum Spec {\n");
    for v in d {
        for a in &v.attrs {
            match a {
                Attr::Id(h) => s.push_str(&format!("  #[id(0x{})]\n", h)),
                Attr::Ty(t) => s.push_str(&format!("  #[data_type(TagDataType::{})]\n", type_name(*t))),
                Attr::Path(p) => s.push_str(&format!("  #[doc_path({})]\n", path_src(p))),
                Attr::Other => s.push_str("  #[doc = \"x\"]\n"),
            }
        }
        s.push_str(&format!("  {},\n", ident_of(&v.name)));
    }
    s.push_str("}\n");
    s
}

/// the same declaration in easy_ebml! syntax, if it can be written that way: every variant has exactly
/// one id, exactly one type, at most one (non-empty) path; other attributes are dropped
pub fn easy_source(d: &[Var]) -> Option<String> {
    let mut s = String::from("#[derive(Clone)] pub enum Spec {\n");
    for v in d {
        let mut id = None;
        let mut ty = None;
        let mut path: Option<&Vec<Part>> = None;
        for a in &v.attrs {
            match a {
                Attr::Id(h) => {
                    if id.replace(h).is_some() {
                        return None;
                    }
                }
                Attr::Ty(t) => {
                    if ty.replace(*t).is_some() {
                        return None;
                    }
                }
                Attr::Path(p) => {
                    if p.is_empty() || path.replace(p).is_some() {
                        return None;
                    }
                }
                Attr::Other => {}
            }
        }
        let (id, ty) = (id?, ty?);
        let mut full = path.map(|p| path_src(p)).unwrap_or_default();
        if !full.is_empty() {
            full.push('/');
        }
        full.push_str(&ident_of(&v.name));
        s.push_str(&format!("  {} : {} = 0x{},\n", full, type_name(ty), id));
    }
    s.push_str("}\n");
    Some(s)
}

// ------------------------------------------------------------------ reading the generated code back

const TYPES: [char; 6] = ['M', 'U', 'I', 'S', 'B', 'F'];

#[derive(Default, PartialEq, Debug)]
pub struct Gen {
    types: Vec<(u64, char)>,
    paths: Vec<(u64, String)>,
    ctor: [Vec<(u64, String)>; 6],
    acc: [Vec<String>; 6],
    ids: Vec<(String, String)>,
    variants: Vec<(String, char)>,
    problems: Vec<String>,
}

fn nospace(t: &impl ToTokens) -> String {
    t.to_token_stream().to_string().chars().filter(|c| !c.is_whitespace()).collect()
}

fn lit_u64(e: &Expr) -> Option<u64> {
    if let Expr::Lit(l) = e {
        if let Lit::Int(i) = &l.lit {
            return i.base10_parse::<u64>().ok();
        }
    }
    None
}

fn pat_u64(p: &Pat) -> Option<u64> {
    if let Pat::Lit(l) = p {
        return lit_u64(&l.expr);
    }
    None
}

fn last_seg(p: &syn::Path) -> String {
    p.segments.last().map(|s| s.ident.to_string()).unwrap_or_default()
}

/// `Some(<inner>)`
fn some_arg(e: &Expr) -> Option<&Expr> {
    if let Expr::Call(c) = e {
        if let Expr::Path(p) = &*c.func {
            if p.path.is_ident("Some") && c.args.len() == 1 {
                return c.args.first();
            }
        }
    }
    None
}

fn type_letter(name: &str) -> char {
    match name {
        "Master" => 'M',
        "UnsignedInt" => 'U',
        "Integer" => 'I',
        "Utf8" => 'S',
        "Binary" => 'B',
        "Float" => 'F',
        _ => '?',
    }
}

fn bound(e: &Expr) -> Option<String> {
    if let Expr::Path(p) = e {
        if p.path.is_ident("None") {
            return Some(String::new());
        }
    }
    some_arg(e).and_then(lit_u64).map(|v| v.to_string())
}

fn path_part(e: &Expr) -> Option<String> {
    if let Expr::Call(c) = e {
        if let Expr::Path(p) = &*c.func {
            if c.args.len() != 1 || !nospace(&p.path).ends_with("specs::PathPart::Id") && !nospace(&p.path).ends_with("specs::PathPart::Global") {
                return None;
            }
            match last_seg(&p.path).as_str() {
                "Id" => return lit_u64(&c.args[0]).map(|v| format!("{:x}", v)),
                "Global" => {
                    if let Expr::Tuple(t) = &c.args[0] {
                        if t.elems.len() == 2 {
                            return Some(format!("({}-{})", bound(&t.elems[0])?, bound(&t.elems[1])?));
                        }
                    }
                }
                _ => {}
            }
        }
    }
    None
}

/// the single `match <scrutinee> { … }` a generated method consists of
fn method_match<'a>(m: &'a syn::ImplItemMethod, scrutinee: &str, g: &mut Gen) -> Option<&'a syn::ExprMatch> {
    if m.block.stmts.len() == 1 {
        if let syn::Stmt::Expr(Expr::Match(em)) = &m.block.stmts[0] {
            if nospace(&em.expr) == scrutinee {
                return Some(em);
            }
        }
    }
    g.problems.push(format!("shape:{}", m.sig.ident));
    None
}

/// checks the trailing `_ => <default>` arm and returns the other arms
fn arms<'a>(em: &'a syn::ExprMatch, default: Option<&str>, what: &str, g: &mut Gen) -> &'a [syn::Arm] {
    let n = em.arms.len();
    match default {
        None => &em.arms[..],
        Some(d) => {
            if n == 0 || !matches!(em.arms[n - 1].pat, Pat::Wild(_)) || nospace(&em.arms[n - 1].body) != d {
                g.problems.push(format!("default:{}", what));
                return &em.arms[..];
            }
            &em.arms[..n - 1]
        }
    }
}

/// `Enum::Name(<binders>)` → (Name, binders)
fn variant_pat(p: &Pat, enum_name: &str) -> Option<(String, Vec<String>)> {
    if let Pat::TupleStruct(ts) = p {
        if ts.path.segments.len() == 2 && ts.path.segments[0].ident == enum_name {
            return Some((last_seg(&ts.path), ts.pat.elems.iter().map(|e| nospace(e)).collect()));
        }
    }
    None
}

pub fn read_back(ts: &TokenStream) -> Result<Gen, String> {
    let file = syn::parse2::<syn::File>(ts.clone()).map_err(|e| format!("generated-code-unparsable:{}", e))?;
    let mut g = Gen::default();
    let mut enum_name = String::new();
    let mut seen = vec![];
    for item in &file.items {
        match item {
            Item::Enum(en) => {
                enum_name = en.ident.to_string();
                for v in &en.variants {
                    let tys: Vec<String> = v.fields.iter().map(|f| nospace(&f.ty)).collect();
                    let tys: Vec<&str> = tys.iter().map(|s| s.as_str()).collect();
                    let master = format!("ebml_iterable::specs::Master<{}>", enum_name);
                    let k = match tys.as_slice() {
                        [t] if *t == master => 'M',
                        ["u64"] => 'U',
                        ["i64"] => 'I',
                        ["String"] => 'S',
                        ["::std::vec::Vec<u8>"] => 'B',
                        ["f64"] => 'F',
                        ["u64", "::std::vec::Vec<u8>"] => 'R',
                        _ => '?',
                    };
                    if v.attrs.iter().any(|a| a.path.is_ident("id") || a.path.is_ident("data_type") || a.path.is_ident("doc_path")) {
                        g.problems.push(format!("attr-left:{}", v.ident));
                    }
                    g.variants.push((name_of(&v.ident.to_string()), k));
                }
            }
            Item::Impl(im) => {
                let tr = im.trait_.as_ref().map(|t| nospace(&t.1)).unwrap_or_default();
                if nospace(&im.self_ty) != enum_name {
                    g.problems.push("impl-for".into());
                }
                let spec_trait = tr == format!("ebml_iterable::specs::EbmlSpecification<{}>", enum_name);
                let tag_trait = tr == format!("ebml_iterable::specs::EbmlTag<{}>", enum_name);
                if !spec_trait && !tag_trait {
                    g.problems.push(format!("impl:{}", tr));
                    continue;
                }
                for it in &im.items {
                    let m = match it {
                        ImplItem::Method(m) => m,
                        _ => {
                            g.problems.push("impl-item".into());
                            continue;
                        }
                    };
                    let name = m.sig.ident.to_string();
                    seen.push(name.clone());
                    let ctor_kind = match name.as_str() {
                        "get_master_tag" => Some(0),
                        "get_unsigned_int_tag" => Some(1),
                        "get_signed_int_tag" => Some(2),
                        "get_utf8_tag" => Some(3),
                        "get_binary_tag" => Some(4),
                        "get_float_tag" => Some(5),
                        _ => None,
                    };
                    let acc_kind = match name.as_str() {
                        "as_master" => Some(0),
                        "as_unsigned_int" => Some(1),
                        "as_signed_int" => Some(2),
                        "as_utf8" => Some(3),
                        "as_binary" => Some(4),
                        "as_float" => Some(5),
                        _ => None,
                    };
                    if spec_trait && name == "get_tag_data_type" {
                        if let Some(em) = method_match(m, "id", &mut g) {
                            for a in arms(em, Some("None"), &name, &mut g).to_vec() {
                                let ty = some_arg(&a.body).and_then(|e| if let Expr::Path(p) = e { Some(type_letter(&last_seg(&p.path))) } else { None });
                                match (pat_u64(&a.pat), ty, &a.guard) {
                                    (Some(id), Some(t), None) if t != '?' => g.types.push((id, t)),
                                    _ => g.problems.push(format!("arm:{}:{}", name, nospace(&a))),
                                }
                            }
                        }
                    } else if spec_trait && name == "get_path_by_id" {
                        if let Some(em) = method_match(m, "id", &mut g) {
                            for a in arms(em, Some("&[]"), &name, &mut g).to_vec() {
                                let mut parts = None;
                                if let Expr::Reference(r) = &*a.body {
                                    if let Expr::Array(arr) = &*r.expr {
                                        parts = arr.elems.iter().map(path_part).collect::<Option<Vec<_>>>();
                                    }
                                }
                                match (pat_u64(&a.pat), parts, &a.guard) {
                                    (Some(id), Some(p), None) => g.paths.push((id, p.join("/"))),
                                    _ => g.problems.push(format!("arm:{}:{}", name, nospace(&a))),
                                }
                            }
                        }
                    } else if spec_trait && ctor_kind.is_some() {
                        let k = ctor_kind.unwrap();
                        if let Some(em) = method_match(m, "id", &mut g) {
                            for a in arms(em, Some("None"), &name, &mut g).to_vec() {
                                let mut built = None;
                                if let Some(Expr::Call(c)) = some_arg(&a.body) {
                                    if let Expr::Path(p) = &*c.func {
                                        let payload = if k == 4 { "data.to_vec()" } else { "data" };
                                        if p.path.segments.len() == 2 && p.path.segments[0].ident == enum_name && c.args.len() == 1 && nospace(&c.args[0]) == payload {
                                            built = Some(name_of(&last_seg(&p.path)));
                                        }
                                    }
                                }
                                match (pat_u64(&a.pat), built, &a.guard) {
                                    (Some(id), Some(v), None) => g.ctor[k].push((id, v)),
                                    _ => g.problems.push(format!("arm:{}:{}", name, nospace(&a))),
                                }
                            }
                        }
                    } else if spec_trait && name == "get_raw_tag" {
                        if nospace(&m.block) != format!("{{{}::RawTag(id,data.to_vec())}}", enum_name) {
                            g.problems.push("get_raw_tag".into());
                        }
                    } else if tag_trait && name == "get_id" {
                        if let Some(em) = method_match(m, "self", &mut g) {
                            for a in arms(em, None, &name, &mut g).to_vec() {
                                match variant_pat(&a.pat, &enum_name) {
                                    // (the arms are told apart by their shape: a user variant may itself be called RawTag)
                                    Some((v, b)) if v == "RawTag" && b == ["id", "_data"] && nospace(&a.body) == "*id" && a.guard.is_none() => g.ids.push(("2".into(), "*".into())),
                                    Some((v, b)) if b == ["_"] && a.guard.is_none() && lit_u64(&a.body).is_some() => {
                                        g.ids.push((name_of(&v), format!("{:x}", lit_u64(&a.body).unwrap())))
                                    }
                                    _ => g.problems.push(format!("arm:{}:{}", name, nospace(&a))),
                                }
                            }
                        }
                    } else if tag_trait && acc_kind.is_some() {
                        let k = acc_kind.unwrap();
                        if let Some(em) = method_match(m, "self", &mut g) {
                            for a in arms(em, Some("None"), &name, &mut g).to_vec() {
                                match variant_pat(&a.pat, &enum_name) {
                                    Some((v, b)) if v == "RawTag" && b == ["_id", "data"] && nospace(&a.body) == "Some(data)" && a.guard.is_none() => g.acc[k].push("2".into()),
                                    Some((v, b)) if b == ["val"] && nospace(&a.body) == "Some(val)" && a.guard.is_none() => g.acc[k].push(name_of(&v)),
                                    _ => g.problems.push(format!("arm:{}:{}", name, nospace(&a))),
                                }
                            }
                        }
                    } else {
                        g.problems.push(format!("method:{}", name));
                    }
                }
            }
            other => g.problems.push(format!("item:{}", nospace(other).chars().take(40).collect::<String>())),
        }
    }
    for want in [
        "get_tag_data_type", "get_path_by_id", "get_unsigned_int_tag", "get_signed_int_tag", "get_utf8_tag", "get_binary_tag", "get_float_tag",
        "get_master_tag", "get_raw_tag", "get_id", "as_unsigned_int", "as_signed_int", "as_utf8", "as_binary", "as_float", "as_master",
    ] {
        if seen.iter().filter(|s| *s == want).count() != 1 {
            g.problems.push(format!("missing:{}", want));
        }
    }
    Ok(g)
}

impl Gen {
    /// `<id>:<T>:<path>` sorted by id; the first arm with an id wins, as in the generated `match`
    pub fn table(&self) -> String {
        let mut ids: Vec<u64> = self.types.iter().map(|x| x.0).chain(self.paths.iter().map(|x| x.0)).collect();
        ids.sort_unstable();
        ids.dedup();
        ids.iter()
            .map(|id| {
                let t = self.types.iter().find(|x| x.0 == *id).map(|x| x.1).unwrap_or('?');
                let p = self.paths.iter().find(|x| x.0 == *id).map(|x| x.1.clone()).unwrap_or_default();
                format!("{:x}:{}:{}", id, t, p)
            })
            .collect::<Vec<_>>()
            .join(";")
    }

    pub fn full(&self) -> String {
        let groups = |f: &dyn Fn(usize) -> String| (0..6).map(|k| format!("{}={}", TYPES[k], f(k))).collect::<Vec<_>>().join(";");
        let ctor = groups(&|k| self.ctor[k].iter().map(|(i, n)| format!("{:x}>{}", i, n)).collect::<Vec<_>>().join(","));
        let acc = groups(&|k| self.acc[k].join(","));
        let ids = self.ids.iter().map(|(n, i)| format!("{}>{}", n, i)).collect::<Vec<_>>().join(",");
        let en = self.variants.iter().map(|(n, t)| format!("{}{}", n, t)).collect::<Vec<_>>().join(",");
        let mut s = [self.table(), ctor, acc, ids, en].join("|");
        if !self.problems.is_empty() {
            s.push_str("|!");
            s.push_str(&self.problems.join(",").replace(' ', ""));
        }
        s
    }
}

// ------------------------------------------------------------------ the two front-ends

pub enum Outcome {
    Panic,
    Rejected,
    Accepted(TokenStream),
    Harness(String),
}

fn guarded<F: FnOnce() -> Outcome>(f: F) -> Outcome {
    catch_unwind(AssertUnwindSafe(f)).unwrap_or(Outcome::Panic)
}

pub fn attribute_front_end(d: &[Var]) -> Outcome {
    let src = attr_source(d);
    guarded(|| {
        let mut item = match syn::parse_str::<ItemEnum>(&src) {
            Ok(i) => i,
            Err(e) => return Outcome::Harness(format!("attr-source:{}", e)),
        };
        match impl_ebml_specification(&mut item) {
            Ok(ts) => Outcome::Accepted(ts),
            Err(_) => Outcome::Rejected,
        }
    })
}

/// easy_ebml!: `EasyEBML::implement` produces the enum with `#[ebml_iterable::specs::ebml_specification]` on it;
/// rustc would then expand that attribute — done here by calling `impl_ebml_specification` on the enum
pub fn easy_front_end(d: &[Var]) -> Option<Outcome> {
    let src = easy_source(d)?;
    Some(guarded(|| {
        // a parse failure is a compile error of the real macro (lib.rs easy_ebml): e.g. a placeholder bound that
        // does not fit u64 is detected while parsing the path
        let easy = match syn::parse_str::<EasyEBML>(&src) {
            Ok(e) => e,
            Err(_) => return Outcome::Rejected,
        };
        let lowered = match easy.implement() {
            Ok(ts) => ts,
            Err(_) => return Outcome::Rejected,
        };
        let mut item = match syn::parse2::<ItemEnum>(lowered) {
            Ok(i) => i,
            Err(e) => return Outcome::Harness(format!("easy-lowered:{}", e)),
        };
        if item.attrs.is_empty() || nospace(&item.attrs[0].path) != "ebml_iterable::specs::ebml_specification" || !item.attrs[0].tokens.is_empty() {
            return Outcome::Harness("easy-no-attribute".into());
        }
        item.attrs.remove(0);
        match impl_ebml_specification(&mut item) {
            Ok(ts) => Outcome::Accepted(ts),
            Err(_) => Outcome::Rejected,
        }
    }))
}

/// `D <decl>`
pub fn run_table(decl: &str) -> String {
    let d = match parse_decl(decl) {
        Ok(d) => d,
        Err(e) => return format!("BADCASE {}", e),
    };
    let a = attribute_front_end(&d);
    let e = easy_front_end(&d);
    let has_other = d.iter().any(|v| v.attrs.iter().any(|a| matches!(a, Attr::Other)));
    match (a, e) {
        (Outcome::Harness(m), _) | (_, Some(Outcome::Harness(m))) => format!("BADCASE {}", m.replace(' ', "_")),
        (Outcome::Panic, _) | (_, Some(Outcome::Panic)) => "PANIC".to_string(),
        (Outcome::Rejected, Some(Outcome::Accepted(_))) => "ERR;differ".to_string(),
        (Outcome::Rejected, _) => "ERR".to_string(),
        (Outcome::Accepted(ts), e) => {
            let g = match read_back(&ts) {
                Ok(g) => g,
                Err(m) => return format!("OK:!{}", m.replace(' ', "_")),
            };
            let suffix = match e {
                None => "noeasy",
                Some(Outcome::Accepted(ts2)) => match read_back(&ts2) {
                    // same tables; and, when no unrelated attribute had to be dropped for the easy form, the same code
                    Ok(g2) if g2 == g && (has_other || ts2.to_string() == ts.to_string()) => "same",
                    _ => "differ",
                },
                Some(_) => "differ",
            };
            format!("OK:{};{}", g.full(), suffix)
        }
    }
}

/// table part only (for the probe command)
pub fn table_of(decl: &str) -> Option<String> {
    let d = parse_decl(decl).ok()?;
    match attribute_front_end(&d) {
        Outcome::Accepted(ts) => read_back(&ts).ok().map(|g| g.table()),
        _ => None,
    }
}
