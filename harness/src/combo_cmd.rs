//! X (write, then read what was written) and Y (read, write the items back, read again):
//! compositions of the W and R commands by plain string plumbing (see FORMAT.md).
use crate::{reader_cmd, writer_cmd};

fn split_w(res: &str) -> Option<(Vec<&str>, &str)> {
    // "<tok> <tok> … | <hex>"
    let idx = res.rfind("| ")?;
    let toks: Vec<&str> = res[..idx].split(' ').filter(|s| !s.is_empty()).collect();
    Some((toks, &res[idx + 2..]))
}

pub fn run_x(t: &[&str]) -> String {
    if t.len() != 4 {
        return "BADCASE X-field-count".to_string();
    }
    let w = writer_cmd::run(&[t[0], t[1]]);
    if w.starts_with("BADCASE") {
        return w;
    }
    let (toks, dest) = match split_w(&w) {
        Some(x) => x,
        None => return "BADCASE X-w".to_string(),
    };
    match t[3] {
        "f" => {
            let r = reader_cmd::run_blocking(&[t[0], t[2], "-", dest, "N"], false);
            format!("{} | {}", w, r)
        }
        "p" => {
            let mut out = w.clone();
            out.push_str(" |");
            for tok in toks {
                let n = match tok.rfind('@').and_then(|i| tok[i + 1..].parse::<usize>().ok()) {
                    Some(n) => n,
                    None => break, // PANIC
                };
                let prefix = if n == 0 { "-" } else { &dest[..2 * n] };
                let r = reader_cmd::run_blocking(&[t[0], t[2], "-", prefix, "N"], false);
                out.push_str(" [");
                out.push_str(&r);
                out.push(']');
            }
            out
        }
        _ => "BADCASE X-mode".to_string(),
    }
}

pub fn run_y(t: &[&str]) -> String {
    if t.len() != 3 {
        return "BADCASE Y-field-count".to_string();
    }
    let r1 = reader_cmd::run_blocking(&[t[0], t[1], "-", t[2], "N"], false);
    let items: Vec<&str> = r1.split(' ').collect();
    if items.last() != Some(&"N") {
        return r1;
    }
    let mut ops = String::new();
    for it in &items[..items.len() - 1] {
        let tag = match it.rfind('@') {
            Some(i) => &it[..i],
            None => return format!("{} | BADITEM", r1),
        };
        ops.push_str("wd:");
        ops.push_str(tag);
        ops.push(',');
    }
    ops.push('x');
    let w = writer_cmd::run(&[t[0], &ops]);
    let dest = match split_w(&w) {
        Some((_, d)) => d.to_string(),
        None => return format!("{} | {}", r1, w),
    };
    let r2 = reader_cmd::run_blocking(&[t[0], t[1], "-", &dest, "N"], false);
    format!("{} | {} | {}", r1, w, r2)
}
