//! Enums declared with the REAL `#[ebml_specification]` attribute and `easy_ebml!` macro (compiled by rustc with the
//! harness), probed by `D probe <n> <decl>` (derive_cmd.rs).  props/c18.py holds the same declarations in the `D` case
//! syntax (FIXED); the two lists must be kept in step — a mismatch shows up as a failing probe line.
#![allow(dead_code)]

/// 0: the repository's derive_spec_compile test enum (ids made valid EBML ids): all six types, nested masters
pub mod e0 {
    use ebml_iterable::specs::{ebml_specification, TagDataType};

    #[ebml_specification]
    #[derive(Clone, Debug, PartialEq)]
    pub enum Trial {
        #[id(0x81)]
        #[data_type(TagDataType::Master)]
        Root,

        #[id(0x82)]
        #[data_type(TagDataType::Master)]
        #[doc_path(Root)]
        Parent,

        #[id(0x4100)]
        #[data_type(TagDataType::UnsignedInt)]
        #[doc_path(Root/Parent)]
        Count,

        #[id(0x4200)]
        #[data_type(TagDataType::Binary)]
        #[doc_path(Root/Parent)]
        Data,

        #[id(0x4201)]
        #[data_type(TagDataType::Utf8)]
        #[doc_path(Root/Parent)]
        Name,

        #[id(0x4102)]
        #[data_type(TagDataType::Float)]
        #[doc_path(Root/Parent)]
        Amount,

        #[id(0x4101)]
        #[data_type(TagDataType::Integer)]
        #[doc_path(Root/Parent)]
        Id,
    }
}

/// 1: the repository's test specification (tests/test_spec.rs) in easy_ebml! form, ids of 1-4 bytes
pub mod e1 {
    use ebml_iterable::specs::{easy_ebml, TagDataType};

    easy_ebml! {
        #[derive(Clone, Debug, PartialEq)]
        pub enum TestSpec {
            Root             : Master = 0x81,
            Root/Int         : UnsignedInt = 0x4101,
            Root/String      : Utf8 = 0x4102,
            Root/Parent      : Master = 0x4103,
            Root/Parent/Child: UnsignedInt = 0x210301,

            Ebml                             : Master = 0x1a45dfa3,
            Segment                          : Master = 0x18538067,
            Segment/TrackType                : UnsignedInt = 0x83,
            Segment/Cluster                  : Master = 0x1F43B675,
            Segment/Cluster/CueRefCluster    : UnsignedInt = 0x97,
            Segment/Cluster/Count            : UnsignedInt = 0x4100,
            Segment/Cluster/Block            : Binary = 0xa1,
            Segment/Cluster/SimpleBlock      : Binary = 0xa3,
        }
    }
}

/// 2: attribute form with the attributes in every order, unrelated attributes, three ways of writing the type,
/// restricted visibility, ids of 1-8 bytes
pub mod e2 {
    use ebml_iterable::specs::TagDataType::{Master, Utf8};
    use ebml_iterable::specs::{ebml_specification, TagDataType};

    #[ebml_specification]
    #[derive(Clone, Debug, PartialEq)]
    pub(crate) enum Mixed {
        /// the root
        #[data_type(Master)]
        #[id(0x1a45dfa3)]
        Head,

        #[doc_path(Head)]
        #[id(0x0123456789abcdef)]
        #[data_type(ebml_iterable::specs::TagDataType::Float)]
        Wide8,

        #[doc_path(Head)]
        #[data_type(TagDataType::Integer)]
        #[doc = "seven bytes"]
        #[id(0x02345678abcdef)]
        Wide7,

        #[id(0x0456789abcde)]
        #[doc_path(Head)]
        #[data_type(Master)]
        Wide6,

        #[data_type(TagDataType::UnsignedInt)]
        #[doc_path(Head/Wide6)]
        #[id(0x08abcdef01)]
        Wide5,

        #[id(0x2abcde)]
        #[data_type(Utf8)]
        #[allow(dead_code)]
        #[doc_path(Head/Wide6)]
        Wide3,

        #[data_type(TagDataType::Binary)]
        #[id(0x4abc)]
        #[doc_path(Head/Wide6)]
        Wide2,

        #[id(0x9f)]
        #[data_type(TagDataType::Binary)]
        #[doc_path(Head)]
        Wide1,
    }
}

/// 3: easy_ebml! with trailing placeholders of every bound shape, a recursive master and an element below it
/// (intermediate placeholder)
pub mod e3 {
    use ebml_iterable::specs::{easy_ebml, TagDataType};

    easy_ebml! {
        #[derive(Clone, Debug, PartialEq)]
        pub enum Rec {
            Root: Master = 0x81,
            Root/(0-)/Rec: Master = 0x4301,
            Root/(0-)/Rec/Leaf: UnsignedInt = 0x4302,
            Root/(1-)/Anywhere: Binary = 0x4303,
            Root/(-2)/Near: Utf8 = 0x4304,
            Root/(1-3)/Mid: Integer = 0x4305,
            Root/Plain: Float = 0x4306,
        }
    }
}

/// 4: attribute form: two roots, paths made of placeholders only (also for a master and its child), a recursive master
/// with two levels below it and a trailing placeholder after an intermediate one
pub mod e4 {
    use ebml_iterable::specs::{ebml_specification, TagDataType};

    #[ebml_specification]
    #[derive(Clone, Debug, PartialEq)]
    pub enum Globals {
        #[id(0x1a45dfa3)]
        #[data_type(TagDataType::Master)]
        Ebml,
        #[id(0x18538067)]
        #[data_type(TagDataType::Master)]
        Segment,
        #[id(0x4d80)]
        #[data_type(TagDataType::Utf8)]
        #[doc_path((1-))]
        Anywhere,
        #[id(0x4d81)]
        #[data_type(TagDataType::Master)]
        #[doc_path(Segment/(-))]
        Tagged,
        #[id(0x4d82)]
        #[data_type(TagDataType::Master)]
        #[doc_path(Segment/(-)/Tagged)]
        Inner,
        #[id(0x4d83)]
        #[data_type(TagDataType::Integer)]
        #[doc_path(Segment/(-)/Tagged/Inner/(2-5))]
        Deep,
        #[id(0x4d84)]
        #[data_type(TagDataType::UnsignedInt)]
        #[doc_path(Ebml)]
        Version,
        #[id(0x4d85)]
        #[data_type(TagDataType::Float)]
        #[doc_path(Segment/(-)/Tagged/Inner)]
        Ratio,
        #[id(0x4d86)]
        #[data_type(TagDataType::Binary)]
        #[doc_path((-3))]
        Blob,
        #[id(0x4d87)]
        #[data_type(TagDataType::Master)]
        #[doc_path((1-))]
        Floating,
        #[id(0x4d88)]
        #[data_type(TagDataType::UnsignedInt)]
        #[doc_path((1-)/Floating)]
        FloatChild,
    }
}

/// 5: nothing declared: only the elements the macro adds
pub mod e5 {
    use ebml_iterable::specs::ebml_specification;

    #[ebml_specification]
    #[derive(Clone, Debug, PartialEq)]
    pub enum Empty {}
}

/// 6: easy_ebml!: nesting depth 5, all six types at the deepest level, ids of 1-8 bytes, a second root
pub mod e6 {
    use ebml_iterable::specs::{easy_ebml, TagDataType};

    easy_ebml! {
        #[derive(Clone, Debug, PartialEq)]
        pub enum Deep {
            A: Master = 0x81,
            A/B: Master = 0x4002,
            A/B/C: Master = 0x200003,
            A/B/C/D: Master = 0x10000004,
            A/B/C/D/E: Master = 0x0800000005,
            A/B/C/D/E/U: UnsignedInt = 0x040000000006,
            A/B/C/D/E/I: Integer = 0x02000000000007,
            A/B/C/D/E/S: Utf8 = 0x0100000000000008,
            A/B/C/D/E/Bn: Binary = 0xfe,
            A/B/C/D/E/F: Float = 0x7ffe,
            A/B/C/D/E/M: Master = 0x3ffffe,
            X: Master = 0x1ffffffe,
        }
    }
}

pub const COUNT: usize = 7;
