//! Counting global allocator (wraps `std::alloc::System`): tracks the number of live heap
//! bytes and a resettable high-water mark.  Used by the `M` command (C17).
//!
//! Accounting conventions: `alloc`/`alloc_zeroed` add `layout.size()`, `dealloc` subtracts it,
//! `realloc` is accounted as the size delta (old block and new block are *not* counted as
//! simultaneously live, even if the system allocator moves the block).
use std::alloc::{GlobalAlloc, Layout, System};
use std::sync::atomic::{AtomicUsize, Ordering::Relaxed};

pub struct Counting;

static LIVE: AtomicUsize = AtomicUsize::new(0);
static PEAK: AtomicUsize = AtomicUsize::new(0);

#[inline]
fn add(n: usize) {
    let cur = LIVE.fetch_add(n, Relaxed).wrapping_add(n);
    PEAK.fetch_max(cur, Relaxed);
}

#[inline]
fn sub(n: usize) {
    LIVE.fetch_sub(n, Relaxed);
}

unsafe impl GlobalAlloc for Counting {
    unsafe fn alloc(&self, layout: Layout) -> *mut u8 {
        let p = System.alloc(layout);
        if !p.is_null() {
            add(layout.size());
        }
        p
    }

    unsafe fn alloc_zeroed(&self, layout: Layout) -> *mut u8 {
        let p = System.alloc_zeroed(layout);
        if !p.is_null() {
            add(layout.size());
        }
        p
    }

    unsafe fn dealloc(&self, ptr: *mut u8, layout: Layout) {
        System.dealloc(ptr, layout);
        sub(layout.size());
    }

    unsafe fn realloc(&self, ptr: *mut u8, layout: Layout, new_size: usize) -> *mut u8 {
        let p = System.realloc(ptr, layout, new_size);
        if !p.is_null() {
            let old = layout.size();
            if new_size >= old {
                add(new_size - old);
            } else {
                sub(old - new_size);
            }
        }
        p
    }
}

/// Number of heap bytes currently live.
pub fn live() -> usize {
    LIVE.load(Relaxed)
}

/// High-water mark of `live()` since the last `reset_peak()`.
pub fn peak() -> usize {
    PEAK.load(Relaxed)
}

/// Sets the high-water mark to the current number of live bytes.
pub fn reset_peak() {
    PEAK.store(LIVE.load(Relaxed), Relaxed);
}
