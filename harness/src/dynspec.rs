//! Runtime-table EBML specification (`DynSpec` of FORMAT.md) plus the parser/printer of the
//! tag syntax.
//!
//! The `EbmlSpecification` functions are static, so the active table lives in a thread-local
//! (the harness is single-threaded).  `get_path_by_id` has to hand out `&'static [PathPart]`,
//! so installed tables are leaked; they are cached by their spec string so that a spec is
//! leaked only once per process.
use crate::util::{f64_token, parse_id, push_hex, unhex_checked};
use ebml_iterable::specs::{EbmlSpecification, EbmlTag, Master, PathPart, TagDataType};
use std::cell::{Cell, RefCell};
use std::collections::HashMap;

#[derive(Clone, Debug, PartialEq)]
pub enum Val {
    U(u64),
    I(i64),
    F(f64),
    S(String),
    B(Vec<u8>),
    Raw(Vec<u8>),
    M(Master<DynTag>),
}

#[derive(Clone, Debug, PartialEq)]
pub struct DynTag {
    pub id: u64,
    pub value: Val,
}

impl DynTag {
    pub fn start(id: u64) -> DynTag {
        DynTag { id, value: Val::M(Master::Start) }
    }
}

pub struct SpecTable {
    entries: HashMap<u64, (TagDataType, &'static [PathPart])>,
}

thread_local! {
    static CURRENT: Cell<Option<&'static SpecTable>> = Cell::new(None);
    static CACHE: RefCell<HashMap<String, &'static SpecTable>> = RefCell::new(HashMap::new());
}

fn parse_bound(s: &str) -> Result<Option<u64>, String> {
    if s.is_empty() {
        Ok(None)
    } else if s.bytes().all(|c| c.is_ascii_digit()) {
        s.parse::<u64>().map(Some).map_err(|_| format!("bad-bound:{}", s))
    } else {
        Err(format!("bad-bound:{}", s))
    }
}

fn parse_path(s: &str) -> Result<Vec<PathPart>, String> {
    if s.is_empty() {
        return Ok(Vec::new());
    }
    let mut parts = Vec::new();
    for p in s.split('/') {
        if let Some(inner) = p.strip_prefix('(') {
            let inner = inner.strip_suffix(')').ok_or_else(|| format!("bad-path-part:{}", p))?;
            let (lo, hi) = inner.split_once('-').ok_or_else(|| format!("bad-path-part:{}", p))?;
            parts.push(PathPart::Global((parse_bound(lo)?, parse_bound(hi)?)));
        } else {
            parts.push(PathPart::Id(parse_id(p)?));
        }
    }
    Ok(parts)
}

fn parse_spec(spec: &str) -> Result<SpecTable, String> {
    let mut entries: HashMap<u64, (TagDataType, &'static [PathPart])> = HashMap::new();
    if spec != "-" {
        for entry in spec.split(';') {
            let f: Vec<&str> = entry.split(':').collect();
            if f.len() != 3 {
                return Err(format!("bad-spec-entry:{}", entry));
            }
            let id = parse_id(f[0])?;
            let ty = match f[1] {
                "M" => TagDataType::Master,
                "U" => TagDataType::UnsignedInt,
                "I" => TagDataType::Integer,
                "S" => TagDataType::Utf8,
                "B" => TagDataType::Binary,
                "F" => TagDataType::Float,
                other => return Err(format!("bad-spec-type:{}", other)),
            };
            let path = parse_path(f[2])?;
            // first entry with a given id wins
            entries.entry(id).or_insert_with(|| {
                let leaked: &'static [PathPart] = Box::leak(path.into_boxed_slice());
                (ty, leaked)
            });
        }
    }
    Ok(SpecTable { entries })
}

/// Makes `spec` the active specification of this thread.
pub fn install(spec: &str) -> Result<(), String> {
    let cached = CACHE.with(|c| c.borrow().get(spec).copied());
    let table = match cached {
        Some(t) => t,
        None => {
            let t: &'static SpecTable = Box::leak(Box::new(parse_spec(spec)?));
            CACHE.with(|c| c.borrow_mut().insert(spec.to_string(), t));
            t
        }
    };
    CURRENT.with(|c| c.set(Some(table)));
    Ok(())
}

#[inline]
fn lookup(id: u64) -> Option<(TagDataType, &'static [PathPart])> {
    CURRENT.with(|c| c.get()).and_then(|t| t.entries.get(&id).copied())
}

#[inline]
fn has_type(id: u64, ty: TagDataType) -> bool {
    matches!(lookup(id), Some((t, _)) if t == ty)
}

impl EbmlSpecification<DynTag> for DynTag {
    fn get_tag_data_type(id: u64) -> Option<TagDataType> {
        lookup(id).map(|e| e.0)
    }

    fn get_path_by_id(id: u64) -> &'static [PathPart] {
        lookup(id).map(|e| e.1).unwrap_or(&[])
    }

    fn get_unsigned_int_tag(id: u64, data: u64) -> Option<DynTag> {
        if has_type(id, TagDataType::UnsignedInt) { Some(DynTag { id, value: Val::U(data) }) } else { None }
    }

    fn get_signed_int_tag(id: u64, data: i64) -> Option<DynTag> {
        if has_type(id, TagDataType::Integer) { Some(DynTag { id, value: Val::I(data) }) } else { None }
    }

    fn get_utf8_tag(id: u64, data: String) -> Option<DynTag> {
        if has_type(id, TagDataType::Utf8) { Some(DynTag { id, value: Val::S(data) }) } else { None }
    }

    fn get_binary_tag(id: u64, data: &[u8]) -> Option<DynTag> {
        if has_type(id, TagDataType::Binary) { Some(DynTag { id, value: Val::B(data.to_vec()) }) } else { None }
    }

    fn get_float_tag(id: u64, data: f64) -> Option<DynTag> {
        if has_type(id, TagDataType::Float) { Some(DynTag { id, value: Val::F(data) }) } else { None }
    }

    fn get_master_tag(id: u64, data: Master<DynTag>) -> Option<DynTag> {
        if has_type(id, TagDataType::Master) { Some(DynTag { id, value: Val::M(data) }) } else { None }
    }

    fn get_raw_tag(id: u64, data: &[u8]) -> DynTag {
        DynTag { id, value: Val::Raw(data.to_vec()) }
    }
}

impl EbmlTag<DynTag> for DynTag {
    fn get_id(&self) -> u64 {
        self.id
    }

    fn as_unsigned_int(&self) -> Option<&u64> {
        match &self.value { Val::U(v) => Some(v), _ => None }
    }

    fn as_signed_int(&self) -> Option<&i64> {
        match &self.value { Val::I(v) => Some(v), _ => None }
    }

    fn as_utf8(&self) -> Option<&str> {
        match &self.value { Val::S(v) => Some(v), _ => None }
    }

    fn as_binary(&self) -> Option<&[u8]> {
        match &self.value { Val::B(v) | Val::Raw(v) => Some(v), _ => None }
    }

    fn as_float(&self) -> Option<&f64> {
        match &self.value { Val::F(v) => Some(v), _ => None }
    }

    fn as_master(&self) -> Option<&Master<DynTag>> {
        match &self.value { Val::M(v) => Some(v), _ => None }
    }
}

// ---------------------------------------------------------------------------------------
// Tag syntax
// ---------------------------------------------------------------------------------------

/// Appends the canonical text of `tag` to `out`.
pub fn push_tag(out: &mut String, tag: &DynTag) {
    use std::fmt::Write;
    let id = tag.id;
    match &tag.value {
        Val::U(v) => { let _ = write!(out, "u{:x}={}", id, v); }
        Val::I(v) => { let _ = write!(out, "i{:x}={}", id, v); }
        Val::F(v) => { let _ = write!(out, "f{:x}={}", id, f64_token(*v)); }
        Val::S(v) => { let _ = write!(out, "t{:x}=", id); push_hex(out, v.as_bytes()); }
        Val::B(v) => { let _ = write!(out, "b{:x}=", id); push_hex(out, v); }
        Val::Raw(v) => { let _ = write!(out, "r{:x}=", id); push_hex(out, v); }
        Val::M(Master::Start) => { let _ = write!(out, "s{:x}", id); }
        Val::M(Master::End) => { let _ = write!(out, "e{:x}", id); }
        Val::M(Master::Full(children)) => {
            let _ = write!(out, "m{:x}(", id);
            for (i, c) in children.iter().enumerate() {
                if i > 0 {
                    out.push(';');
                }
                push_tag(out, c);
            }
            out.push(')');
        }
    }
}

struct Parser<'a> {
    s: &'a [u8],
    pos: usize,
}

impl<'a> Parser<'a> {
    fn peek(&self) -> Option<u8> {
        self.s.get(self.pos).copied()
    }

    fn take_while<F: Fn(u8) -> bool>(&mut self, f: F) -> &'a str {
        let start = self.pos;
        while self.pos < self.s.len() && f(self.s[self.pos]) {
            self.pos += 1;
        }
        // the input is a &str and we only split at ASCII bytes
        std::str::from_utf8(&self.s[start..self.pos]).unwrap_or("")
    }

    fn expect(&mut self, c: u8) -> Result<(), String> {
        if self.peek() == Some(c) {
            self.pos += 1;
            Ok(())
        } else {
            Err(format!("bad-tag:expected-{}-at-{}", c as char, self.pos))
        }
    }

    fn tag(&mut self) -> Result<DynTag, String> {
        let kind = self.peek().ok_or_else(|| "bad-tag:empty".to_string())?;
        self.pos += 1;
        let id = parse_id(self.take_while(|c| c.is_ascii_hexdigit()))?;
        let value = match kind {
            b's' => Val::M(Master::Start),
            b'e' => Val::M(Master::End),
            b'm' => {
                self.expect(b'(')?;
                let mut children = Vec::new();
                if self.peek() == Some(b')') {
                    self.pos += 1;
                } else {
                    loop {
                        children.push(self.tag()?);
                        match self.peek() {
                            Some(b';') => self.pos += 1,
                            Some(b')') => {
                                self.pos += 1;
                                break;
                            }
                            _ => return Err(format!("bad-tag:expected-;-or-)-at-{}", self.pos)),
                        }
                    }
                }
                Val::M(Master::Full(children))
            }
            b'u' | b'i' | b'f' | b't' | b'b' | b'r' => {
                self.expect(b'=')?;
                let v = self.take_while(|c| c != b';' && c != b')');
                match kind {
                    b'u' => Val::U(v.parse::<u64>().map_err(|_| format!("bad-tag:u64:{}", v))?),
                    b'i' => Val::I(v.parse::<i64>().map_err(|_| format!("bad-tag:i64:{}", v))?),
                    b'f' => {
                        if v == "NaN" {
                            Val::F(f64::NAN)
                        } else if v.len() == 16 && v.bytes().all(|c| c.is_ascii_hexdigit()) {
                            Val::F(f64::from_bits(u64::from_str_radix(v, 16).map_err(|_| format!("bad-tag:f64:{}", v))?))
                        } else {
                            return Err(format!("bad-tag:f64:{}", v));
                        }
                    }
                    b't' => Val::S(String::from_utf8(unhex_checked(v)?).map_err(|_| "bad-tag:utf8".to_string())?),
                    b'b' => Val::B(unhex_checked(v)?),
                    _ => Val::Raw(unhex_checked(v)?),
                }
            }
            other => return Err(format!("bad-tag:kind-{}", other as char)),
        };
        Ok(DynTag { id, value })
    }
}

/// Parses one tag (the whole string must be consumed).
pub fn parse_tag(s: &str) -> Result<DynTag, String> {
    let mut p = Parser { s: s.as_bytes(), pos: 0 };
    let t = p.tag()?;
    if p.pos != s.len() {
        return Err(format!("bad-tag:trailing-at-{}", p.pos));
    }
    Ok(t)
}
