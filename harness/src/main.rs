//! Correspondence harness: runs the real ebml-iterable code on one case per input line and
//! prints one canonical result line per case (formats: FORMAT.md).
use std::io::{self, BufRead, Write};
use std::panic::{catch_unwind, AssertUnwindSafe};

mod alloc;
mod combo_cmd;
mod derive_cmd;
#[cfg(feature = "compiled_specs")]
mod derive_specs;
mod dynspec;
mod reader_cmd;
mod tools_cmd;
mod util;
mod writer_cmd;

#[global_allocator]
static GLOBAL: alloc::Counting = alloc::Counting;

fn main() {
    std::panic::set_hook(Box::new(|_| {}));
    let stdin = io::stdin();
    let stdout = io::stdout();
    let mut out = io::BufWriter::new(stdout.lock());
    for line in stdin.lock().lines() {
        let line = line.expect("read line");
        let line = line.trim_end();
        if line.is_empty() || line.starts_with('#') {
            continue;
        }
        let toks: Vec<&str> = line.split(' ').collect();
        // Library panics are caught per API call inside the commands; this outer guard only
        // keeps a harness bug on a malformed case from killing the process.
        let res = catch_unwind(AssertUnwindSafe(|| match toks[0] {
            "T" => tools_cmd::run(&toks[1..]),
            "W" => writer_cmd::run(&toks[1..]),
            "R" => reader_cmd::run_blocking(&toks[1..], false),
            "M" => reader_cmd::run_blocking(&toks[1..], true),
            // the same as R on a thread with the stack a Rust main thread has by default (8 MiB), whatever RLIMIT_STACK the check runs with:
            // recursion depth of the library is observable (a stack overflow aborts the process: CRASH)
            "K" => {
                let owned: Vec<String> = toks[1..].iter().map(|s| s.to_string()).collect();
                std::thread::Builder::new()
                    .stack_size(8 << 20)
                    .spawn(move || {
                        let r: Vec<&str> = owned.iter().map(|s| s.as_str()).collect();
                        reader_cmd::run_blocking(&r, false)
                    })
                    .expect("spawn")
                    .join()
                    .unwrap_or_else(|_| "BADCASE harness-panic".to_string())
            }
            "A" => reader_cmd::run_async(&toks[1..]),
            "X" => combo_cmd::run_x(&toks[1..]),
            "Y" => combo_cmd::run_y(&toks[1..]),
            "D" => derive_cmd::run(&toks[1..]),
            other => format!("BADCMD {}", other),
        }))
        .unwrap_or_else(|_| "BADCASE harness-panic".to_string());
        writeln!(out, "{}", res).unwrap();
    }
    out.flush().unwrap();
}
