//! Correspondence harness: runs the real ebml-iterable code on one case per input line and
//! prints one canonical result line per case (formats: DESIGN.md Appendix A).
use std::io::{self, BufRead, Write};

mod util;
mod tools_cmd;

fn main() {
    std::panic::set_hook(Box::new(|_| {}));
    let stdin = io::stdin();
    let stdout = io::stdout();
    let mut out = io::BufWriter::new(stdout.lock());
    for line in stdin.lock().lines() {
        let line = line.expect("read line");
        let line = line.trim_end();
        if line.is_empty() || line.starts_with('#') {
            continue;
        }
        let toks: Vec<&str> = line.split(' ').collect();
        let res = match toks[0] {
            "T" => tools_cmd::run(&toks[1..]),
            other => format!("BADCMD {}", other),
        };
        writeln!(out, "{}", res).unwrap();
    }
    out.flush().unwrap();
}
