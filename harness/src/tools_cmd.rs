use crate::util::*;
use ebml_iterable::error::ToolError;
use ebml_iterable::tools::{self, SignedVint, Vint};

fn terr(e: ToolError) -> String {
    match e {
        ToolError::WriteVintOverflow(v) => format!("E wvo {}", v),
        ToolError::WriteSignedVintOverflow(v) => format!("E wsvo {}", v),
        ToolError::ReadVintOverflow => "E rvo".to_string(),
        ToolError::ReadU64Overflow(_) => "E ru64".to_string(),
        ToolError::ReadI64Overflow(_) => "E ri64".to_string(),
        ToolError::ReadF64Mismatch(_) => "E rf64".to_string(),
        ToolError::FromUtf8Error(_, _) => "E utf8".to_string(),
    }
}

fn enc(r: Result<Vec<u8>, ToolError>) -> String {
    match r {
        Ok(v) => format!("OK {}", hex(&v)),
        Err(e) => terr(e),
    }
}

pub fn run(t: &[&str]) -> String {
    let f = t[0].to_string();
    let a: Vec<String> = t[1..].iter().map(|s| s.to_string()).collect();
    catch(move || match f.as_str() {
        "as_vint" => enc(a[0].parse::<u64>().unwrap().as_vint()),
        "as_vint_len" => {
            let l: usize = a[0].parse().unwrap();
            let v: u64 = a[1].parse().unwrap();
            match l {
                1 => enc(v.as_vint_with_length::<1>().map(|x| x.to_vec())),
                2 => enc(v.as_vint_with_length::<2>().map(|x| x.to_vec())),
                3 => enc(v.as_vint_with_length::<3>().map(|x| x.to_vec())),
                4 => enc(v.as_vint_with_length::<4>().map(|x| x.to_vec())),
                5 => enc(v.as_vint_with_length::<5>().map(|x| x.to_vec())),
                6 => enc(v.as_vint_with_length::<6>().map(|x| x.to_vec())),
                7 => enc(v.as_vint_with_length::<7>().map(|x| x.to_vec())),
                8 => enc(v.as_vint_with_length::<8>().map(|x| x.to_vec())),
                _ => "BADLEN".to_string(),
            }
        }
        "read_vint" => match tools::read_vint(&unhex(&a[0])) {
            Ok(Some((v, l))) => format!("OK {} {}", v, l),
            Ok(None) => "NONE".to_string(),
            Err(e) => terr(e),
        },
        "as_svint" => enc(a[0].parse::<i64>().unwrap().as_signed_vint()),
        "as_svint_len" => {
            let l: usize = a[0].parse().unwrap();
            enc(a[1].parse::<i64>().unwrap().as_signed_vint_with_length(l))
        }
        "read_svint" => match tools::read_signed_vint(&unhex(&a[0])) {
            Ok(Some((v, l))) => format!("OK {} {}", v, l),
            Ok(None) => "NONE".to_string(),
            Err(e) => terr(e),
        },
        "is_vint" => format!("OK {}", if tools::is_vint(a[0].parse::<u64>().unwrap()) { 1 } else { 0 }),
        "arr_u" => match tools::arr_to_u64(&unhex(&a[0])) {
            Ok(v) => format!("OK {}", v),
            Err(e) => terr(e),
        },
        "arr_i" => match tools::arr_to_i64(&unhex(&a[0])) {
            Ok(v) => format!("OK {}", v),
            Err(e) => terr(e),
        },
        "arr_f" => match tools::arr_to_f64(&unhex(&a[0])) {
            Ok(v) => format!("OK {}", f64_token(v)),
            Err(e) => terr(e),
        },
        _ => "BADFN".to_string(),
    })
}
