//! `D` — derive (FORMAT.md): `D <decl>` runs the real macro implementation as a library on the declaration and prints
//! the tables read back from the generated tokens (derivelib); `D probe <n> <decl>` probes the n-th enum of
//! derive_specs.rs — compiled by rustc from the real macros — through the public trait functions.
#[cfg(feature = "compiled_specs")]
use crate::derive_specs as ds;
use crate::util::catch;
use ebml_iterable::specs::{EbmlSpecification, EbmlTag, Master, PathPart, TagDataType};
use ebml_iterable::{TagIterator, TagWriter, WriteOptions};
use std::fmt::Debug;
use std::io::Cursor;
use std::panic::{catch_unwind, AssertUnwindSafe};

pub fn run(t: &[&str]) -> String {
    match t {
        [decl] => {
            let d = decl.to_string();
            catch(move || derivelib::run_table(&d))
        }
        #[cfg(not(feature = "compiled_specs"))]
        ["probe", _n, _decl] => "NOCOMPILED".to_string(),
        #[cfg(feature = "compiled_specs")]
        ["probe", n, decl] => {
            let ids = match derivelib::parse_decl(decl) {
                Ok(d) => derivelib::decl_ids(&d),
                Err(e) => return format!("BADCASE {}", e),
            };
            match n.parse::<usize>() {
                Ok(0) => probe::<ds::e0::Trial>(&ids),
                Ok(1) => probe::<ds::e1::TestSpec>(&ids),
                Ok(2) => probe::<ds::e2::Mixed>(&ids),
                Ok(3) => probe::<ds::e3::Rec>(&ids),
                Ok(4) => probe::<ds::e4::Globals>(&ids),
                Ok(5) => probe::<ds::e5::Empty>(&ids),
                Ok(6) => probe::<ds::e6::Deep>(&ids),
                _ => "BADCASE probe-index".to_string(),
            }
        }
        _ => "BADCASE D".to_string(),
    }
}

const KINDS: [TagDataType; 6] =
    [TagDataType::Master, TagDataType::UnsignedInt, TagDataType::Integer, TagDataType::Utf8, TagDataType::Binary, TagDataType::Float];

fn letter(t: TagDataType) -> char {
    match t {
        TagDataType::Master => 'M',
        TagDataType::UnsignedInt => 'U',
        TagDataType::Integer => 'I',
        TagDataType::Utf8 => 'S',
        TagDataType::Binary => 'B',
        TagDataType::Float => 'F',
    }
}

fn path_str(p: &[PathPart]) -> String {
    p.iter()
        .map(|x| match x {
            PathPart::Id(i) => format!("{:x}", i),
            PathPart::Global((a, b)) => {
                format!("({}-{})", a.map(|v| v.to_string()).unwrap_or_default(), b.map(|v| v.to_string()).unwrap_or_default())
            }
        })
        .collect::<Vec<_>>()
        .join("/")
}

/// which accessors answer, as a string over MUISBF
fn answering<T: EbmlTag<T> + Clone>(t: &T) -> String {
    let mut s = String::new();
    if t.as_master().is_some() {
        s.push('M');
    }
    if t.as_unsigned_int().is_some() {
        s.push('U');
    }
    if t.as_signed_int().is_some() {
        s.push('I');
    }
    if t.as_utf8().is_some() {
        s.push('S');
    }
    if t.as_binary().is_some() {
        s.push('B');
    }
    if t.as_float().is_some() {
        s.push('F');
    }
    s
}

fn id_bytes(id: u64) -> Vec<u8> {
    let b = id.to_be_bytes();
    let skip = b.iter().take_while(|x| **x == 0).count().min(7);
    b[skip..].to_vec()
}

fn probe<T>(declared: &[u64]) -> String
where
    T: EbmlSpecification<T> + EbmlTag<T> + Clone + PartialEq + Debug,
{
    let mut ids: Vec<u64> = vec![0, 1, 0x7f, 0x80, 0xbe, 0xbf, 0xc0, 0xeb, 0xec, 0xed, 0xff, 0x4000, 0x1a45dfa3, 0x1a45dfa4, u64::MAX];
    for d in declared {
        ids.push(*d);
        ids.push(d.wrapping_add(1));
        ids.push(d.wrapping_sub(1));
    }
    ids.sort_unstable();
    ids.dedup();
    let mut table = vec![];
    let mut viol: Vec<String> = vec![];
    let r = catch_unwind(AssertUnwindSafe(|| {
        for &id in &ids {
            let ty = T::get_tag_data_type(id);
            let path = T::get_path_by_id(id);
            match ty {
                Some(t) => table.push(format!("{:x}:{}:{}", id, letter(t), path_str(path))),
                None => {
                    if !path.is_empty() {
                        viol.push(format!("path-of-unknown:{:x}", id));
                    }
                }
            }
            // constructors: Some iff the id has that type; the tag reports the id and the payload through exactly
            // the accessor of its type
            let bin: &[u8] = &[1, 2, 3];
            let children = vec![T::get_raw_tag(0x7e, &[9])];
            for k in KINDS {
                let built: Vec<Option<T>> = match k {
                    TagDataType::Master => vec![
                        T::get_master_tag(id, Master::Start),
                        T::get_master_tag(id, Master::End),
                        T::get_master_tag(id, Master::Full(children.clone())),
                    ],
                    TagDataType::UnsignedInt => vec![T::get_unsigned_int_tag(id, 0), T::get_unsigned_int_tag(id, u64::MAX - 5)],
                    TagDataType::Integer => vec![T::get_signed_int_tag(id, -7), T::get_signed_int_tag(id, i64::MIN)],
                    TagDataType::Utf8 => vec![T::get_utf8_tag(id, "h\u{e9}".to_string()), T::get_utf8_tag(id, String::new())],
                    TagDataType::Binary => vec![T::get_binary_tag(id, bin), T::get_binary_tag(id, &[])],
                    TagDataType::Float => vec![T::get_float_tag(id, 1.5), T::get_float_tag(id, -0.0)],
                };
                for (j, b) in built.iter().enumerate() {
                    if b.is_some() != (ty == Some(k)) {
                        viol.push(format!("ctor:{:x}:{}:{}", id, letter(k), if b.is_some() { "some" } else { "none" }));
                    }
                    if let Some(tag) = b {
                        if tag.get_id() != id || T::get_tag_id(tag) != id {
                            viol.push(format!("get_id:{:x}:{}", id, letter(k)));
                        }
                        if T::get_path_by_tag(tag) != path {
                            viol.push(format!("path_by_tag:{:x}", id));
                        }
                        let a = answering(tag);
                        if a != letter(k).to_string() {
                            viol.push(format!("accessors:{:x}:{}:{}", id, letter(k), if a.is_empty() { "-".to_string() } else { a }));
                        }
                        let payload_ok = match k {
                            TagDataType::Master => {
                                let want = [Master::Start, Master::End, Master::Full(children.clone())];
                                tag.as_master() == Some(&want[j])
                            }
                            TagDataType::UnsignedInt => tag.as_unsigned_int() == Some(&[0, u64::MAX - 5][j]),
                            TagDataType::Integer => tag.as_signed_int() == Some(&[-7, i64::MIN][j]),
                            TagDataType::Utf8 => tag.as_utf8() == Some(["h\u{e9}", ""][j]),
                            TagDataType::Binary => tag.as_binary() == Some([bin, &[][..]][j]),
                            TagDataType::Float => tag.as_float().map(|f| f.to_bits()) == Some([1.5f64, -0.0][j].to_bits()),
                        };
                        if !payload_ok {
                            viol.push(format!("payload:{:x}:{}", id, letter(k)));
                        }
                    }
                }
            }
            // raw tag: own id, only as_binary
            let raw = T::get_raw_tag(id, bin);
            if raw.get_id() != id || answering(&raw) != "B" || raw.as_binary() != Some(bin) {
                viol.push(format!("raw:{:x}", id));
            }
            // ... and the writer takes it whatever the id is declared as (an error is fine, a 'bad specification' panic is not)
            let raw_written = catch_unwind(AssertUnwindSafe(|| {
                let mut w = TagWriter::new(Cursor::new(Vec::new()));
                let _ = w.write(&raw);
                let _ = w.write_advanced(&raw, WriteOptions::set_size_byte_count(2));
                let _ = w.write_advanced(&raw, WriteOptions::is_unknown_sized_element());
            }));
            if raw_written.is_err() {
                viol.push(format!("writer-raw-panic:{:x}", id));
            }
            // used with the iterator (as the first element of a stream: implied parents are built with get_master_tag)
            // and with the writer (parents named in an all-identifier path are opened first): no panic, same id back
            if let Some(t) = ty {
                let mut bytes = id_bytes(id);
                let payload: &[u8] = match t {
                    TagDataType::Master => &[],
                    TagDataType::Float => &[0x3f, 0xc0, 0, 0],
                    _ => &[0x41],
                };
                bytes.push(0x80 | payload.len() as u8);
                bytes.extend_from_slice(payload);
                let got = catch_unwind(AssertUnwindSafe(|| {
                    let mut it = TagIterator::<_, T>::new(Cursor::new(bytes.clone()), &[]);
                    it.next()
                }));
                let tag = match got {
                    Err(_) => {
                        viol.push(format!("iterator-panic:{:x}", id));
                        None
                    }
                    Ok(Some(Ok(tag))) if tag.get_id() == id => Some(tag),
                    Ok(other) => {
                        viol.push(format!("iterator:{:x}:{}", id, format!("{:?}", other).replace(' ', "_").chars().take(60).collect::<String>()));
                        None
                    }
                };
                if let (Some(tag), true) = (tag, path.iter().all(|p| matches!(p, PathPart::Id(_)))) {
                    let wrote = catch_unwind(AssertUnwindSafe(|| {
                        let mut w = TagWriter::new(Cursor::new(Vec::new()));
                        let mut res = vec![];
                        for p in path {
                            if let PathPart::Id(pid) = p {
                                match T::get_master_tag(*pid, Master::Start) {
                                    Some(m) => res.push(w.write(&m).is_ok()),
                                    None => res.push(false),
                                }
                            }
                        }
                        res.push(w.write(&tag).is_ok());
                        res.iter().all(|x| *x)
                    }));
                    match wrote {
                        Err(_) => viol.push(format!("writer-panic:{:x}", id)),
                        Ok(false) => viol.push(format!("writer:{:x}", id)),
                        Ok(true) => {}
                    }
                }
            }
        }
    }));
    if r.is_err() {
        viol.push("probe-panic".to_string());
    }
    format!("PROBE:{};{}", table.join(";"), if viol.is_empty() { "-".to_string() } else { viol.join(",") })
}
