//! `W <spec> <ops> [<wscript>]` — writer run (see FORMAT.md).
use crate::dynspec::{self, DynTag};
use crate::util::{hex, parse_id, unhex_field};
use ebml_iterable::error::TagWriterError;
use ebml_iterable::{TagWriter, WriteOptions};
use std::cell::RefCell;
use std::collections::VecDeque;
use std::io::{self, ErrorKind, Write};
use std::panic::{catch_unwind, AssertUnwindSafe};
use std::rc::Rc;

enum WStep {
    Accept(usize),
    Interrupted,
    Zero,
    Fail(String),
}

/// Scripted destination.  The bytes live behind an `Rc` so that they stay inspectable after
/// the writer (and with it the destination) has been consumed or lost in a panic.
struct Dest {
    data: Rc<RefCell<Vec<u8>>>,
    script: VecDeque<WStep>,
}

impl Write for Dest {
    fn write(&mut self, buf: &[u8]) -> io::Result<usize> {
        match self.script.pop_front() {
            None => {
                self.data.borrow_mut().extend_from_slice(buf);
                Ok(buf.len())
            }
            Some(WStep::Accept(n)) => {
                let k = n.min(buf.len());
                self.data.borrow_mut().extend_from_slice(&buf[..k]);
                Ok(k)
            }
            Some(WStep::Interrupted) => Err(io::Error::new(ErrorKind::Interrupted, "interrupted")),
            Some(WStep::Zero) => Ok(0),
            Some(WStep::Fail(code)) => Err(io::Error::new(ErrorKind::Other, code)),
        }
    }

    fn flush(&mut self) -> io::Result<()> {
        Ok(())
    }
}

enum WOpt {
    Plain,
    SizeBytes(usize),
    Unknown,
}

enum Op {
    Write(WOpt, DynTag),
    WriteUnknownSize(DynTag),
    Raw(u64, Vec<u8>),
    Flush,
    IntoInner,
}

fn parse_op(s: &str) -> Result<Op, String> {
    if s == "f" {
        return Ok(Op::Flush);
    }
    if s == "x" {
        return Ok(Op::IntoInner);
    }
    if let Some(rest) = s.strip_prefix("U:") {
        return Ok(Op::WriteUnknownSize(dynspec::parse_tag(rest)?));
    }
    if let Some(rest) = s.strip_prefix("r:") {
        let (id, data) = rest.split_once(':').ok_or_else(|| format!("bad-op:{}", s))?;
        return Ok(Op::Raw(parse_id(id)?, unhex_field(data)?));
    }
    if let Some(rest) = s.strip_prefix('w') {
        let (opt, tag) = rest.split_once(':').ok_or_else(|| format!("bad-op:{}", s))?;
        let opt = match opt {
            "d" => WOpt::Plain,
            "u" => WOpt::Unknown,
            "1" | "2" | "3" | "4" | "5" | "6" | "7" | "8" => WOpt::SizeBytes(opt.parse::<usize>().unwrap_or(1)),
            _ => return Err(format!("bad-write-opt:{}", opt)),
        };
        return Ok(Op::Write(opt, dynspec::parse_tag(tag)?));
    }
    Err(format!("bad-op:{}", s))
}

fn parse_wscript(s: &str) -> Result<VecDeque<WStep>, String> {
    let mut steps = VecDeque::new();
    if s.is_empty() || s == "-" {
        return Ok(steps);
    }
    for t in s.split(',') {
        let step = if t == "i" {
            WStep::Interrupted
        } else if t == "z" {
            WStep::Zero
        } else if let Some(code) = t.strip_prefix('e') {
            WStep::Fail(code.to_string())
        } else if !t.is_empty() && t.bytes().all(|c| c.is_ascii_digit()) {
            match t.parse::<usize>() {
                Ok(n) if n >= 1 => WStep::Accept(n),
                _ => return Err(format!("bad-wscript-step:{}", t)),
            }
        } else {
            return Err(format!("bad-wscript-step:{}", t));
        };
        steps.push_back(step);
    }
    Ok(steps)
}

fn io_code(e: &io::Error) -> String {
    match e.kind() {
        ErrorKind::WriteZero => "wz".to_string(),
        // scripted errors are `Other` with the code as message
        ErrorKind::Other => e.to_string(),
        _ => "?".to_string(),
    }
}

fn err_token(e: &TagWriterError) -> String {
    match e {
        TagWriterError::UnexpectedTag { tag_id, current_path } => {
            let path: Vec<String> = current_path.iter().map(|id| format!("{:x}", id)).collect();
            format!("E:tag:{:x}:{}", tag_id, path.join("/"))
        }
        TagWriterError::TagIdError(id) => format!("E:id:{:x}", id),
        TagWriterError::TagSizeError(_) => "E:size".to_string(),
        TagWriterError::UnexpectedClosingTag { tag_id, expected_id } => match expected_id {
            Some(x) => format!("E:close:{:x}:{:x}", tag_id, x),
            None => format!("E:close:{:x}:-", tag_id),
        },
        TagWriterError::WriteError { source } => format!("E:io:{}", io_code(source)),
    }
}

#[allow(deprecated)]
fn apply(writer: &mut Option<TagWriter<Dest>>, op: &Op) -> Result<(), TagWriterError> {
    match op {
        Op::IntoInner => writer.take().expect("writer already consumed").into_inner().map(|_| ()),
        _ => {
            let w = writer.as_mut().expect("writer already consumed");
            match op {
                Op::Write(WOpt::Plain, tag) => w.write(tag),
                Op::Write(WOpt::SizeBytes(n), tag) => w.write_advanced(tag, WriteOptions::set_size_byte_count(*n)),
                Op::Write(WOpt::Unknown, tag) => w.write_advanced(tag, WriteOptions::is_unknown_sized_element()),
                Op::WriteUnknownSize(tag) => w.write_unknown_size(tag),
                Op::Raw(id, data) => w.write_raw(*id, data),
                Op::Flush => w.flush(),
                Op::IntoInner => unreachable!(),
            }
        }
    }
}

pub fn run(t: &[&str]) -> String {
    if t.len() < 2 || t.len() > 3 {
        return "BADCASE W-field-count".to_string();
    }
    if let Err(e) = dynspec::install(t[0]) {
        return format!("BADCASE {}", e);
    }
    // `-` (not in FORMAT.md) is accepted as the empty op list
    let mut ops = Vec::new();
    if t[1] != "-" {
        for s in t[1].split(',') {
            match parse_op(s) {
                Ok(op) => ops.push(op),
                Err(e) => return format!("BADCASE {}", e),
            }
        }
    }
    if ops.iter().rev().skip(1).any(|op| matches!(op, Op::IntoInner)) {
        return "BADCASE x-not-last".to_string();
    }
    let script = match parse_wscript(if t.len() == 3 { t[2] } else { "" }) {
        Ok(s) => s,
        Err(e) => return format!("BADCASE {}", e),
    };

    let data = Rc::new(RefCell::new(Vec::new()));
    let mut writer = Some(TagWriter::new(Dest { data: data.clone(), script }));
    let mut out = String::new();
    for op in &ops {
        let r = catch_unwind(AssertUnwindSafe(|| apply(&mut writer, op)));
        let n = data.borrow().len();
        match r {
            Ok(Ok(())) => out.push_str(&format!("OK@{} ", n)),
            Ok(Err(e)) => out.push_str(&format!("{}@{} ", err_token(&e), n)),
            Err(_) => {
                out.push_str("PANIC ");
                break;
            }
        }
    }
    out.push_str("| ");
    out.push_str(&hex(&data.borrow()));
    out
}
