//! `R`, `M` (blocking reader run, optionally with peak allocation) and `A` (async reader run);
//! see FORMAT.md.
use crate::alloc;
use crate::dynspec::{self, DynTag};
use crate::util::{parse_id, push_hex, unhex_field};
use ebml_iterable::error::{CorruptedFileError, TagIteratorError, ToolError};
use ebml_iterable::iterator::AllowableErrors;
use ebml_iterable::nonblocking::TagIteratorAsync;
use ebml_iterable::TagIterator;
use std::collections::VecDeque;
use std::io::{self, ErrorKind, Read};
use std::panic::{catch_unwind, AssertUnwindSafe};
use std::pin::Pin;
use std::task::{Context, Poll};

// ---------------------------------------------------------------------------------------
// Scripted source (blocking and async)
// ---------------------------------------------------------------------------------------

enum RStep {
    Deliver(usize),
    Pause,
    Fail(String),
    /// async only: `poll_read` returns `Poll::Pending` once (after waking the task); the blocking `read` skips the step
    Wait,
}

struct Src {
    data: Vec<u8>,
    pos: usize,
    script: VecDeque<RStep>,
}

impl Src {
    fn step(&mut self, buf: &mut [u8]) -> io::Result<usize> {
        let remaining = self.data.len() - self.pos;
        while let Some(RStep::Wait) = self.script.front() {
            self.script.pop_front();
        }
        let k = match self.script.pop_front() {
            None => buf.len().min(remaining),
            Some(RStep::Wait) => unreachable!(),
            Some(RStep::Deliver(n)) => n.min(buf.len()).min(remaining),
            Some(RStep::Pause) => 0,
            Some(RStep::Fail(code)) => return Err(io::Error::new(ErrorKind::Other, code)),
        };
        buf[..k].copy_from_slice(&self.data[self.pos..self.pos + k]);
        self.pos += k;
        Ok(k)
    }
}

impl Read for Src {
    fn read(&mut self, buf: &mut [u8]) -> io::Result<usize> {
        self.step(buf)
    }
}

impl futures::io::AsyncRead for Src {
    fn poll_read(mut self: Pin<&mut Self>, cx: &mut Context<'_>, buf: &mut [u8]) -> Poll<io::Result<usize>> {
        if let Some(RStep::Wait) = self.script.front() {
            self.script.pop_front();
            cx.waker().wake_by_ref();
            return Poll::Pending;
        }
        Poll::Ready(self.step(buf))
    }
}

fn parse_rscript(s: &str) -> Result<VecDeque<RStep>, String> {
    let mut steps = VecDeque::new();
    if s.is_empty() || s == "-" {
        return Ok(steps);
    }
    for t in s.split(',') {
        let step = if t == "p" {
            RStep::Pause
        } else if t == "w" {
            RStep::Wait
        } else if let Some(code) = t.strip_prefix('e') {
            RStep::Fail(code.to_string())
        } else if !t.is_empty() && t.bytes().all(|c| c.is_ascii_digit()) {
            RStep::Deliver(t.parse::<usize>().map_err(|_| format!("bad-script-step:{}", t))?)
        } else {
            return Err(format!("bad-script-step:{}", t));
        };
        steps.push_back(step);
    }
    Ok(steps)
}

// ---------------------------------------------------------------------------------------
// Configuration
// ---------------------------------------------------------------------------------------

enum MaxCfg {
    Default,
    Unlimited,
    Limit(usize),
}

struct Cfg {
    allow: u8,
    max: MaxCfg,
    buffer: Vec<DynTag>,
    emit_end: bool,
    capacity: Option<usize>,
}

/// Items may come in any order; a missing item means `a0` / `mdef` / `b-` / `e1` / `cdef`
/// (`-` = everything default).
fn parse_cfg(s: &str) -> Result<Cfg, String> {
    let mut cfg = Cfg { allow: 0, max: MaxCfg::Default, buffer: Vec::new(), emit_end: true, capacity: None };
    if s == "-" {
        return Ok(cfg);
    }
    for item in s.split(',') {
        let bad = || format!("bad-cfg:{}", item);
        let mut chars = item.chars();
        let key = chars.next().ok_or_else(bad)?;
        let v = chars.as_str();
        match key {
            'a' => {
                cfg.allow = match v.parse::<u8>() {
                    Ok(n) if n <= 7 && v.len() == 1 => n,
                    _ => return Err(bad()),
                }
            }
            'm' => {
                cfg.max = match v {
                    "def" => MaxCfg::Default,
                    "none" => MaxCfg::Unlimited,
                    _ if !v.is_empty() && v.bytes().all(|c| c.is_ascii_digit()) => MaxCfg::Limit(v.parse::<usize>().map_err(|_| bad())?),
                    _ => return Err(bad()),
                }
            }
            'b' => {
                cfg.buffer.clear();
                if v != "-" {
                    for id in v.split('+') {
                        cfg.buffer.push(DynTag::start(parse_id(id)?));
                    }
                }
            }
            'e' => {
                cfg.emit_end = match v {
                    "0" => false,
                    "1" => true,
                    _ => return Err(bad()),
                }
            }
            'c' => {
                cfg.capacity = match v {
                    "def" => None,
                    _ if !v.is_empty() && v.bytes().all(|c| c.is_ascii_digit()) => Some(v.parse::<usize>().map_err(|_| bad())?),
                    _ => return Err(bad()),
                }
            }
            _ => return Err(bad()),
        }
    }
    Ok(cfg)
}

// ---------------------------------------------------------------------------------------
// Tokens
// ---------------------------------------------------------------------------------------

fn io_code(e: &io::Error) -> String {
    match e.kind() {
        // scripted errors are `Other` with the code as message
        ErrorKind::Other => e.to_string(),
        _ => "?".to_string(),
    }
}

fn opt_id(v: &Option<u64>) -> String {
    match v {
        Some(id) => format!("{:x}", id),
        None => "-".to_string(),
    }
}

fn err_token(e: &TagIteratorError) -> String {
    match e {
        TagIteratorError::CorruptedFileData(c) => match c {
            CorruptedFileError::InvalidTagId { position, tag_id } => format!("E:cid:{}:{:x}", position, tag_id),
            CorruptedFileError::InvalidTagData { position, tag_id } => format!("E:cdata:{}:{:x}", position, tag_id),
            CorruptedFileError::HierarchyError { found_tag_id, current_parent_id } => format!("E:hier:{:x}:{}", found_tag_id, opt_id(current_parent_id)),
            CorruptedFileError::OversizedChildElement { position, tag_id, size } => format!("E:over:{}:{:x}:{}", position, tag_id, size),
            CorruptedFileError::InvalidTagSize { position, tag_id, size } => format!("E:size:{}:{:x}:{}", position, tag_id, size),
        },
        TagIteratorError::UnexpectedEOF { tag_start, tag_id, tag_size, partial_data } => {
            let size = match tag_size {
                Some(s) => s.to_string(),
                None => "-".to_string(),
            };
            let mut s = format!("E:eof:{}:{}:{}:", tag_start, opt_id(tag_id), size);
            match partial_data {
                None => s.push('-'),
                Some(bs) => {
                    s.push('=');
                    push_hex(&mut s, bs);
                }
            }
            s
        }
        TagIteratorError::CorruptedTagData { tag_id, problem } => {
            let kind = match problem {
                ToolError::ReadU64Overflow(_) => "u64",
                ToolError::ReadI64Overflow(_) => "i64",
                ToolError::ReadF64Mismatch(_) => "f64",
                ToolError::FromUtf8Error(_, _) => "utf8",
                _ => "other",
            };
            format!("E:tagdata:{:x}:{}", tag_id, kind)
        }
        TagIteratorError::ReadError { source } => format!("E:io:{}", io_code(source)),
    }
}

fn push_sep(out: &mut String) {
    if !out.is_empty() {
        out.push(' ');
    }
}

/// Appends the token of one `next()` result; returns true if the result ends an `N` loop
/// (None or Err).  `offset` = None prints `@?`.
fn push_item(out: &mut String, item: &Option<Result<DynTag, TagIteratorError>>, offset: Option<usize>) -> bool {
    push_sep(out);
    match item {
        None => {
            out.push('N');
            true
        }
        Some(Err(e)) => {
            out.push_str(&err_token(e));
            true
        }
        Some(Ok(tag)) => {
            dynspec::push_tag(out, tag);
            match offset {
                Some(o) => out.push_str(&format!("@{}", o)),
                None => out.push_str("@?"),
            }
            false
        }
    }
}

fn call_bound(len: usize) -> usize {
    len.saturating_mul(4).saturating_add(64)
}

// ---------------------------------------------------------------------------------------
// R / M
// ---------------------------------------------------------------------------------------

/// Peak-allocation bookkeeping for `M`.
///
/// What is measured: `live0` is the number of live heap bytes just before the iterator is
/// constructed (spec table, input bytes, script, `tags_to_buffer` already exist).  Every
/// library call (constructor, `next()`, `try_recover()`) is a measurement window: right
/// before the call the allocator's high-water mark is reset to the current live bytes, right
/// after the call `peak - live0 - own` is folded into the run maximum, where `own` is the
/// capacity growth of the harness's result string since `live0` — the only harness-owned
/// allocation that grows during the run.  Each returned item (tag or error) is formatted into
/// that string and dropped *between* windows, so neither the accumulated output nor the
/// transient garbage of formatting/string growth is counted; an item returned by a call is
/// counted in that call's window (it is live when the call returns) but not afterwards.
/// See alloc.rs for how `realloc` is accounted.
struct Meter {
    live0: usize,
    own0: usize,
    runmax: i64,
}

impl Meter {
    fn call<T, F: FnOnce() -> T>(&mut self, own_now: usize, f: F) -> std::thread::Result<T> {
        let own = own_now as i64 - self.own0 as i64;
        alloc::reset_peak();
        let r = catch_unwind(AssertUnwindSafe(f));
        let growth = alloc::peak() as i64 - self.live0 as i64 - own;
        if growth > self.runmax {
            self.runmax = growth;
        }
        r
    }
}

pub fn run_blocking(t: &[&str], with_peak: bool) -> String {
    if t.len() != 5 {
        return "BADCASE field-count".to_string();
    }
    if let Err(e) = dynspec::install(t[0]) {
        return format!("BADCASE {}", e);
    }
    let cfg = match parse_cfg(t[1]) {
        Ok(c) => c,
        Err(e) => return format!("BADCASE {}", e),
    };
    let script = match parse_rscript(t[2]) {
        Ok(s) => s,
        Err(e) => return format!("BADCASE {}", e),
    };
    let data = match unhex_field(t[3]) {
        Ok(d) => d,
        Err(e) => return format!("BADCASE {}", e),
    };
    // `-` (not in FORMAT.md) is accepted as the empty op string
    let ops = if t[4] == "-" { "" } else { t[4] };
    if !ops.chars().all(|c| c == 'n' || c == 't' || c == 'N') {
        return "BADCASE bad-ops".to_string();
    }
    let bound = call_bound(data.len());
    let mut allowed = Vec::new();
    if cfg.allow & 1 != 0 {
        allowed.push(AllowableErrors::InvalidTagIds);
    }
    if cfg.allow & 2 != 0 {
        allowed.push(AllowableErrors::HierarchyProblems);
    }
    if cfg.allow & 4 != 0 {
        allowed.push(AllowableErrors::OversizedTags);
    }
    let src = Src { data, pos: 0, script };

    let mut out = String::new();
    let mut meter = Meter { live0: alloc::live(), own0: out.capacity(), runmax: 0 };

    let constructed = meter.call(out.capacity(), || match cfg.capacity {
        None => TagIterator::new(src, &cfg.buffer),
        Some(n) => TagIterator::with_capacity(src, &cfg.buffer, n),
    });
    match constructed {
        Err(_) => out.push_str("PANIC"),
        Ok(mut it) => {
            if cfg.allow != 0 {
                it.allow_errors(&allowed);
            }
            match cfg.max {
                MaxCfg::Default => {}
                MaxCfg::Unlimited => it.set_max_allowable_tag_size(None),
                MaxCfg::Limit(n) => it.set_max_allowable_tag_size(Some(n)),
            }
            if !cfg.emit_end {
                it.emit_master_end_when_eof(false);
            }
            'run: for op in ops.chars() {
                match op {
                    'n' | 'N' => {
                        let calls = if op == 'n' { 1 } else { bound };
                        let mut finished = op == 'n';
                        for _ in 0..calls {
                            match meter.call(out.capacity(), || it.next()) {
                                Err(_) => {
                                    push_sep(&mut out);
                                    out.push_str("PANIC");
                                    break 'run;
                                }
                                Ok(item) => {
                                    let offset = it.last_emitted_tag_offset();
                                    if push_item(&mut out, &item, Some(offset)) && op == 'N' {
                                        finished = true;
                                        break;
                                    }
                                }
                            }
                        }
                        if !finished {
                            // the bound was hit: the run ends here
                            push_sep(&mut out);
                            out.push_str("LIMIT");
                            break 'run;
                        }
                    }
                    _ => match meter.call(out.capacity(), || it.try_recover()) {
                        Err(_) => {
                            push_sep(&mut out);
                            out.push_str("PANIC");
                            break 'run;
                        }
                        Ok(Ok(())) => {
                            push_sep(&mut out);
                            out.push_str("T:ok");
                        }
                        Ok(Err(e)) => {
                            push_sep(&mut out);
                            out.push_str("T:");
                            out.push_str(&err_token(&e));
                        }
                    },
                }
            }
        }
    }

    if with_peak {
        let peak = meter.runmax.max(0);
        if out.is_empty() {
            format!("{}", peak)
        } else {
            format!("{} {}", peak, out)
        }
    } else {
        out
    }
}

// ---------------------------------------------------------------------------------------
// A
// ---------------------------------------------------------------------------------------

pub fn run_async(t: &[&str]) -> String {
    use futures::executor::block_on;
    use futures::StreamExt;

    if t.len() != 5 {
        return "BADCASE field-count".to_string();
    }
    if let Err(e) = dynspec::install(t[0]) {
        return format!("BADCASE {}", e);
    }
    let cfg = match parse_cfg(t[1]) {
        Ok(c) => c,
        Err(e) => return format!("BADCASE {}", e),
    };
    let script = match parse_rscript(t[2]) {
        Ok(s) => s,
        Err(e) => return format!("BADCASE {}", e),
    };
    let data = match unhex_field(t[3]) {
        Ok(d) => d,
        Err(e) => return format!("BADCASE {}", e),
    };
    let mode = t[4];
    if mode != "d" && mode != "s" {
        return "BADCASE bad-mode".to_string();
    }
    let bound = call_bound(data.len());
    let src = Src { data, pos: 0, script };

    let mut out = String::new();
    let mut it = match catch_unwind(AssertUnwindSafe(|| TagIteratorAsync::new(src, &cfg.buffer))) {
        Ok(it) => it,
        Err(_) => return "PANIC".to_string(),
    };
    let mut finished = false;
    if mode == "d" {
        for _ in 0..bound {
            match catch_unwind(AssertUnwindSafe(|| block_on(it.next()))) {
                Err(_) => {
                    push_sep(&mut out);
                    out.push_str("PANIC");
                    return out;
                }
                Ok(item) => {
                    let offset = it.last_emitted_tag_offset();
                    if push_item(&mut out, &item, Some(offset)) {
                        finished = true;
                        break;
                    }
                }
            }
        }
    } else {
        let mut stream = Box::pin(it.into_stream());
        for _ in 0..bound {
            match catch_unwind(AssertUnwindSafe(|| block_on(stream.next()))) {
                Err(_) => {
                    push_sep(&mut out);
                    out.push_str("PANIC");
                    return out;
                }
                Ok(item) => {
                    if push_item(&mut out, &item, None) {
                        finished = true;
                        break;
                    }
                }
            }
        }
    }
    if !finished {
        push_sep(&mut out);
        out.push_str("LIMIT");
    }
    out
}
