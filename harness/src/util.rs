pub fn hex(bs: &[u8]) -> String {
    if bs.is_empty() {
        return "-".to_string();
    }
    hex_raw(bs)
}

/// Lower-case hex, the empty byte string is the empty string.
pub fn hex_raw(bs: &[u8]) -> String {
    let mut s = String::with_capacity(bs.len() * 2);
    push_hex(&mut s, bs);
    s
}

pub fn push_hex(s: &mut String, bs: &[u8]) {
    const DIGITS: &[u8; 16] = b"0123456789abcdef";
    s.reserve(bs.len() * 2);
    for b in bs {
        s.push(DIGITS[(b >> 4) as usize] as char);
        s.push(DIGITS[(b & 15) as usize] as char);
    }
}

pub fn unhex(s: &str) -> Vec<u8> {
    if s == "-" {
        return Vec::new();
    }
    assert!(s.len() % 2 == 0, "odd hex");
    (0..s.len() / 2).map(|i| u8::from_str_radix(&s[2 * i..2 * i + 2], 16).expect("hex")).collect()
}

fn nibble(c: u8) -> Option<u8> {
    match c {
        b'0'..=b'9' => Some(c - b'0'),
        b'a'..=b'f' => Some(c - b'a' + 10),
        b'A'..=b'F' => Some(c - b'A' + 10),
        _ => None,
    }
}

/// Non-panicking hex decoder; the empty string decodes to the empty byte string
/// (the `-` convention for whole fields is handled by the callers).
pub fn unhex_checked(s: &str) -> Result<Vec<u8>, String> {
    let b = s.as_bytes();
    if b.len() % 2 != 0 {
        return Err("odd-hex".to_string());
    }
    let mut out = Vec::with_capacity(b.len() / 2);
    for pair in b.chunks(2) {
        match (nibble(pair[0]), nibble(pair[1])) {
            (Some(h), Some(l)) => out.push((h << 4) | l),
            _ => return Err("bad-hex".to_string()),
        }
    }
    Ok(out)
}

/// Whole-field byte string: `-` (or the empty string) is the empty byte string.
pub fn unhex_field(s: &str) -> Result<Vec<u8>, String> {
    if s == "-" {
        Ok(Vec::new())
    } else {
        unhex_checked(s)
    }
}

/// Hex id without prefix (1..16 hex digits).
pub fn parse_id(s: &str) -> Result<u64, String> {
    if s.is_empty() || s.len() > 16 || !s.bytes().all(|c| nibble(c).is_some()) {
        return Err(format!("bad-id:{}", s));
    }
    u64::from_str_radix(s, 16).map_err(|_| format!("bad-id:{}", s))
}

pub fn catch<F: FnOnce() -> String + std::panic::UnwindSafe>(f: F) -> String {
    match std::panic::catch_unwind(f) {
        Ok(s) => s,
        Err(_) => "PANIC".to_string(),
    }
}

pub fn f64_token(v: f64) -> String {
    if v.is_nan() {
        "NaN".to_string()
    } else {
        format!("{:016x}", v.to_bits())
    }
}
