pub fn hex(bs: &[u8]) -> String {
    if bs.is_empty() {
        return "-".to_string();
    }
    let mut s = String::with_capacity(bs.len() * 2);
    for b in bs {
        s.push_str(&format!("{:02x}", b));
    }
    s
}

pub fn unhex(s: &str) -> Vec<u8> {
    if s == "-" {
        return Vec::new();
    }
    assert!(s.len() % 2 == 0, "odd hex");
    (0..s.len() / 2).map(|i| u8::from_str_radix(&s[2 * i..2 * i + 2], 16).expect("hex")).collect()
}

pub fn catch<F: FnOnce() -> String + std::panic::UnwindSafe>(f: F) -> String {
    match std::panic::catch_unwind(f) {
        Ok(s) => s,
        Err(_) => "PANIC".to_string(),
    }
}

pub fn f64_token(v: f64) -> String {
    if v.is_nan() {
        "NaN".to_string()
    } else {
        format!("{:016x}", v.to_bits())
    }
}
